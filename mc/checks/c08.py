"""C08 Pedersen commitments are the stated group elements and tally exactly.
E2: total enumeration in the small groups (generators = group elements with known logs);
E1: boundary alphabets on secp256k1 (SvdW map, generator derivation, commit, tallies of 0..32
commitments, blind-sum helpers, both 33-byte parsers), several build configurations.
Every case runs the real library and mc/model/pedersen.py in lock-step."""
import sys, os, ctypes, itertools
from ctypes import c_void_p, c_uint64, addressof
import re
from ..core import Run, hx, seeded_fillers
from ..core import run_phase as _run_phase
from ..util import *
from ..model import pedersen as M
from .. import build as B

PID = "C08"
_L = {}
U64MAX = 2**64 - 1


def run_phase(run, name, fn, cases, light=False, **kw):
    """light=True: a phase of a few thousand cheap calls runs on 4 workers (forking 16 sanitizer-instrumented
    processes costs more than the phase).  Development aid: C08_PHASES=<regex> restricts the run to matching
    phases (the evidence then says exhaustive=false)."""
    pat = os.environ.get("C08_PHASES")
    if pat and not re.search(pat, name):
        run.cov["exhaustive"] = False
        return None
    if light and "nproc" not in kw:
        kw["nproc"] = 4
    return _run_phase(run, name, fn, cases, **kw)


def lib(cfg):
    if cfg not in _L:
        _L[cfg] = Lib(cfg)
    return _L[cfg]


# ------------------------------------------------------------------ alphabets
def u64_alphabet():
    """U64 of DESIGN 3.5"""
    v = [0, 1, 2, 3, 9, 10, 11]
    for k in range(1, 20):
        v += [10**k - 1, 10**k, 10**k + 1]
    for k in (1, 2, 8, 31, 32, 33, 61, 62, 63):
        v += [2**k - 1, 2**k, 2**k + 1]
    v += [2**63 - 1, 2**63, 2**64 - 2, 2**64 - 1]
    for f in seeded_fillers(2, b"c08v"):
        v.append(i32(f) % 2**64)
    seen, out = set(), []
    for x in v:
        if 0 <= x < 2**64 and x not in seen:
            seen.add(x)
            out.append(x)
    return out


U64_SMALL = [0, 1, 2, 2**32, 2**63 - 1, 2**63, 2**64 - 2, 2**64 - 1]


def sg_scalar_encodings(n):
    """every residue in all the 32-byte re-encodings of DESIGN 3.5 (+ patterns that differ only in high bytes)"""
    K32 = (2**32 - 1) // n
    out = []
    for b in range(n):
        out += [b, b + n, b + 2 * n, b + K32 * n, b + 2**32, b + 2**224, b + 2**255]
    out.append(2**256 - 1)
    return out


def sg_overflow_encodings(n):
    K32 = (2**32 - 1) // n
    return [n, n + 1, 2 * n - 1, 2 * n, K32 * n + 1, 2**32, 2**224 + 3, 2**256 - 1]


# ------------------------------------------------------------------ object helpers
def xy64(pt):
    return b32(pt[0]) + b32(pt[1])


def pt64(raw):
    return (i32(raw[:32]), i32(raw[32:64]))


def gen_from_point(L, pt):
    g = buf(64)
    assert L.verif_generator_save_xy(g, xy64(pt)) == 1
    return g


def gen_point(L, g):
    out = buf(64)
    L.verif_generator_load_xy(out, g)
    return pt64(out.raw)


def commit_point(L, c):
    out = buf(64)
    L.verif_commitment_load_xy(out, c)
    return pt64(out.raw)


def commit_ser(L, c):
    out = buf(33)
    r = L.pedersen_commitment_serialize(L.ctx, out, c)
    return out.raw if r == 1 else None


def gen_ser(L, g):
    out = buf(33)
    r = L.generator_serialize(L.ctx, out, g)
    return out.raw if r == 1 else None


def parr(bufs):
    """array of pointers to the given ctypes buffers (None for an empty list)"""
    if not bufs:
        return None
    return (c_void_p * len(bufs))(*[addressof(b) for b in bufs])


def legal(L, st, what, case):
    if L.illegal or L.errors:
        st.fail("callback fired on legal input (%s)" % what, case)
        L.cb_reset()


def check_commit(L, st, C, blind, value, g, Hpt, tag, extra=None, light=False):
    """pedersen_commit on the real library against the model: return value, serialized bytes, the point the
    commitment object denotes, parse round trip.  Returns (commitment buffer or None, model point or None)."""
    c = buf(b"\x5a" * 64)
    ret = L.pedersen_commit(L.ctx, c, b32(blind), value, g)
    exp = M.pedersen_commit(blind, value, Hpt, C)
    st.calls += 1
    info = {"cfg": L.config, "blind": hex(blind), "value": value, "H": [hex(Hpt[0]), hex(Hpt[1])], "what": tag}
    if extra:
        info.update(extra)
    if exp is None:
        st.count("commit-refused-" + ("blind>=n" if blind >= C.n else "infinity"))
        if ret != 0:
            st.fail("pedersen_commit returned %d, model says it must fail (%s)" % (ret, "blind >= n" if blind >= C.n else "point at infinity"), info)
        return None, None
    st.count("commit-ok")
    if ret != 1:
        st.fail("pedersen_commit returned %d on a valid (blind, value, generator)" % ret, info)
        return None, exp
    ser = commit_ser(L, c)
    want = M.commitment_serialize(exp, C)
    st.calls += 1
    if ser != want:
        info.update({"got": hx(ser), "model": hx(want)})
        st.fail("commitment is not the encoding of blind*G + value*H", info)
        return None, exp
    if light:
        return c, exp
    if commit_point(L, c) != exp:
        st.fail("commitment object does not load as blind*G + value*H", info)
    c2 = buf(64)
    r2 = L.pedersen_commitment_parse(L.ctx, c2, ser)
    st.calls += 1
    if r2 != 1 or commit_ser(L, c2) != ser or commit_point(L, c2) != exp:
        st.fail("serialized commitment does not parse back to the same commitment", info)
    return c, exp


# ================================================================== E2 small groups
class SG:
    pass


def sg_setup(cfg):
    def f():
        e = SG()
        e.L = L = lib(cfg)
        e.C, e.pts = small_group(L)
        n = e.C.n
        e.n = n
        e.gens = [None] + [gen_from_point(L, e.pts[h]) for h in range(1, n)]
        # commitment objects for every non-zero group element, through the real parser
        e.cser = [None] + [M.commitment_serialize(e.pts[k], e.C) for k in range(1, n)]
        e.cobj = [None]
        for k in range(1, n):
            c = buf(64)
            assert L.pedersen_commitment_parse(L.ctx, c, e.cser[k]) == 1, "small-group point rejected by the commitment parser"
            assert commit_point(L, c) == e.pts[k], "parsed small-group commitment loads as a different point"
            e.cobj.append(c)
        e.enc = {}
        return e
    return f


def sg_commit_case(e, case, st):
    """case = (h, values-id): pedersen_commit for every blind encoding and every value with generator h*G"""
    L, C, pts, n = e.L, e.C, e.pts, e.n
    h, vals, blinds = case
    g = e.gens[h]
    if gen_point(L, g) != pts[h]:
        st.fail("generator object does not hold the stored point", {"cfg": L.config, "h": h})
    for b in blinds:
        for v in vals:
            c, exp = check_commit(L, st, C, b, v, g, pts[h], "sg", {"h_log": h})
            # the model itself against plain arithmetic of discrete logs
            want = pts[(b + v * h) % n] if b < n else None
            assert exp == want, "model disagrees with log arithmetic"
            if exp is not None:
                st.nt((b, v % n, h))
    legal(L, st, "sg commit", {"cfg": L.config, "h": h})
    st.sample({"group_order": n, "generator_log": h, "blind_encodings": len(blinds), "values": len(vals)})


def tuples_upto(items, k):
    out = []
    for r in range(k + 1):
        out += list(itertools.product(items, repeat=r))
    return out


def multisets_upto(items, k):
    out = []
    for r in range(k + 1):
        out += list(itertools.combinations_with_replacement(items, r))
    return out


def sg_tally_case(e, case, st):
    """case = (pos tuple of logs, kind, depth, logs): verify_tally against every negative tuple / multiset"""
    L, C, pts, n = e.L, e.C, e.pts, e.n
    pos, kind, depth, logs = case
    key = (kind, depth, tuple(logs))
    if key not in e.enc:
        negs = tuples_upto(logs, depth) if kind == "ordered" else multisets_upto(logs, depth)
        e.enc[key] = [(t, parr([e.cobj[k] for k in t])) for t in negs]
    pa = parr([e.cobj[k] for k in pos])
    ppts = [pts[k] for k in pos]
    dummy = buf(8)
    for neg, na in e.enc[key]:
        got = L.pedersen_verify_tally(L.ctx, pa, len(pos), na, len(neg))
        exp = M.verify_tally(ppts, [pts[k] for k in neg], C)
        assert exp == ((sum(pos) - sum(neg)) % n == 0), "model disagrees with log arithmetic"
        st.calls += 1
        st.count("tally-balanced" if exp else "tally-unbalanced")
        if exp:
            st.nt((pos, neg))
        if got != (1 if exp else 0):
            st.fail("verify_tally=%d, model %d" % (got, exp), {"cfg": L.config, "order": n, "pos_logs": list(pos), "neg_logs": list(neg)})
    if not pos:
        # empty lists given as NULL and as a non-NULL pointer with count 0
        for a in (None, dummy):
            for b_ in (None, dummy):
                got = L.pedersen_verify_tally(L.ctx, a, 0, b_, 0)
                st.calls += 1
                if got != 1:
                    st.fail("verify_tally of two empty lists must be 1", {"cfg": L.config})
    legal(L, st, "sg tally", {"cfg": L.config, "pos": list(pos)})
    st.sample({"group_order": n, "pos_logs": list(pos), "negatives_enumerated": len(e.enc[key]), "kind": kind})


def call_blind_sum(L, blinds, npos):
    bufs = [buf(b32(b)) for b in blinds]
    out = buf(b"\x77" * 32)
    ret = L.pedersen_blind_sum(L.ctx, out, parr(bufs) or buf(8), len(blinds), npos)
    return ret, out.raw


def sg_blind_sum_case(e, case, st):
    """case = (k, first): every tuple of k blind encodings starting with `first`, every npositive"""
    L, C, n = e.L, e.C, e.n
    k, first, alpha = case
    rest = [()] if k <= 1 else list(itertools.product(alpha, repeat=k - 1))
    heads = [()] if k == 0 else [(first,)]
    for hd in heads:
        for tl in rest:
            bl = list(hd + tl)
            for npos in range(k + 1):
                ret, out = call_blind_sum(L, bl, npos)
                exp = M.blind_sum(bl, npos, C)
                st.calls += 1
                if exp is None:
                    st.count("blind_sum-refused")
                    if ret != 0:
                        st.fail("blind_sum accepted a blinding factor >= group order", {"cfg": L.config, "blinds": [hex(b) for b in bl], "npositive": npos})
                else:
                    st.count("blind_sum-ok")
                    st.nt((tuple(bl), npos))
                    if ret != 1 or out != b32(exp):
                        st.fail("blind_sum differs from model", {"cfg": L.config, "blinds": [hex(b) for b in bl], "npositive": npos, "got": hx(out), "model": hex(exp), "ret": ret})
    legal(L, st, "sg blind_sum", {"cfg": L.config, "k": k, "first": first})


class BG:
    """reusable argument block for blind_generator_blind_sum with k entries"""

    def __init__(self, k):
        self.k = k
        self.vals = (c_uint64 * k)()
        self.rb = [buf(32) for _ in range(k)]
        self.fb = [buf(32) for _ in range(k)]
        self.rp = parr(self.rb)
        self.fp = parr(self.fb)

    def call(self, L, values, rs, fs, n_inputs):
        for i in range(self.k):
            self.vals[i] = values[i]
            self.rb[i].raw = b32(rs[i])
            self.fb[i].raw = b32(fs[i])
        ret = L.pedersen_blind_generator_blind_sum(L.ctx, self.vals, self.rp, self.fp, self.k, n_inputs)
        return ret, [f.raw for f in self.fb], [r.raw for r in self.rb]


def check_bgbs(L, st, C, bg, values, rs, fs, n_inputs):
    """one blind_generator_blind_sum call against the model; returns the list of blinding factors after the
    call (ints) or None if the call is specified to fail"""
    ret, after, rafter = bg.call(L, values, rs, fs, n_inputs)
    exp = M.blind_generator_blind_sum(values, rs, fs, n_inputs, C)
    st.calls += 1
    info = {"cfg": L.config, "values": list(values), "generator_blinds": [hex(r) for r in rs], "blinding_factors": [hex(f) for f in fs], "n_inputs": n_inputs}
    if exp is None:
        st.count("bgbs-refused")
        if ret != 0:
            st.fail("blind_generator_blind_sum accepted a scalar >= group order", info)
        return None
    st.count("bgbs-ok")
    if ret != 1:
        st.fail("blind_generator_blind_sum returned %d on valid input" % ret, info)
        return None
    if after[-1] != b32(exp):
        info.update({"got": hx(after[-1]), "model": hex(exp)})
        st.fail("blind_generator_blind_sum: last blinding factor differs from model", info)
        return None
    if any(after[i] != b32(fs[i]) for i in range(len(fs) - 1)) or any(rafter[i] != b32(rs[i]) for i in range(len(rs))):
        st.fail("blind_generator_blind_sum modified an entry other than the last blinding factor", info)
        return None
    return list(fs[:-1]) + [exp]


def sg_bgbs_case(e, case, st):
    """case = (k, n_inputs, values tuple, r alphabet, r' alphabet): every (r, r') tuple"""
    L, C, n = e.L, e.C, e.n
    k, n_in, values, ra, fa = case
    bg = e.enc.setdefault(("bg", k), BG(k))
    for rs in itertools.product(ra, repeat=k):
        for fs in itertools.product(fa, repeat=k):
            out = check_bgbs(L, st, C, bg, values, rs, fs, n_in)
            if out is not None and k == 1:
                st.nt((values, rs, fs))
    if k > 1:
        st.nt((k, values, n_in))      # the accepted (r, r') tuples are counted in the bgbs-ok bucket
    legal(L, st, "sg bgbs", {"cfg": L.config, "k": k, "values": list(values)})
    st.sample({"group_order": n, "k": k, "n_inputs": n_in, "values": list(values), "tuples": (len(ra) * len(fa))**k})


def sg_bgbs_overflow_case(e, case, st):
    """case = (k, n_inputs, slot, which): one overflow encoding at one slot of r or r', all others over Z_n"""
    L, C, n = e.L, e.C, e.n
    k, n_in, slot, which = case
    bg = e.enc.setdefault(("bg", k), BG(k))
    zn = list(range(n))
    small = {1: zn, 2: [0, 1, n - 1], 3: [0, n - 1]}[k]
    vset = {1: [(v,) for v in (0, 1, n - 1, U64MAX)], 2: list(itertools.product([0, U64MAX], repeat=2)), 3: [(1, 0, U64MAX), (0, 0, 0)]}[k]
    for ov in sg_overflow_encodings(n):
        for values in vset:
            for rs in itertools.product(small, repeat=k):
                for fs in itertools.product(small, repeat=k):
                    rs, fs = list(rs), list(fs)
                    (rs if which == 0 else fs)[slot] = ov
                    check_bgbs(L, st, C, bg, values, rs, fs, n_in)
    legal(L, st, "sg bgbs overflow", {"cfg": L.config, "case": list(case)})


def sg_flow_case(e, case, st):
    """case = (k, n_inputs, generator logs, values): blinded generators A'_i = A_i + r_i*G, blinding factors completed by
    blind_generator_blind_sum, commitments through pedersen_commit, then verify_tally(outputs, inputs):
    must be 1 exactly when sum_i sign_i * v_i * log(A_i) = 0 (mod n)."""
    L, C, pts, n = e.L, e.C, e.pts, e.n
    k, n_in, alogs, values = case
    bg = e.enc.setdefault(("bg", k), BG(k))
    R = [0, 1, n - 1] if k < 3 else [0, n - 1]
    F = [0, 3, n - 1] if k < 3 else [0, 3]
    for rs in itertools.product(R, repeat=k):
        if any((alogs[i] + rs[i]) % n == 0 for i in range(k)):
            st.count("flow-skip-blinded-generator-infinity")
            continue
        for fs in itertools.product(F, repeat=k):
            fin = check_bgbs(L, st, C, bg, values, rs, fs, n_in)
            if fin is None:
                continue
            cs, cp = [], []
            for i in range(k):
                hl = (alogs[i] + rs[i]) % n
                c, pt = check_commit(L, st, C, fin[i], values[i], e.gens[hl], pts[hl], "sg-flow", light=True)
                cs.append(c)
                cp.append(pt)
            if any(c is None for c in cs):
                st.count("flow-skip-commit-infinity")
                continue
            got = L.pedersen_verify_tally(L.ctx, parr(cs[n_in:]), k - n_in, parr(cs[:n_in]), n_in)
            exp = M.verify_tally(cp[n_in:], cp[:n_in], C)
            bal = sum((-1 if i < n_in else 1) * values[i] * alogs[i] for i in range(k)) % n == 0
            assert exp == bal, "model disagrees with log arithmetic"
            st.calls += 1
            st.count("flow-balanced" if exp else "flow-unbalanced")
            if exp:
                st.nt((values, rs, fs, n_in, alogs))
            if got != (1 if exp else 0):
                st.fail("commitments built with blind_generator_blind_sum: verify_tally=%d, values balance=%s" % (got, bal),
                        {"cfg": L.config, "order": n, "values": list(values), "generator_logs": list(alogs), "generator_blinds": list(rs), "blinding_factors": list(fs), "n_inputs": n_in})
    legal(L, st, "sg flow", {"cfg": L.config, "case": [k, n_in, list(alogs), list(values)]})
    st.sample({"group_order": n, "k": k, "n_inputs": n_in, "generator_logs": list(alogs), "values": list(values)})


def sg_svdw_generate_case(e, case, st):
    """the map and the generator derivation on the curve y^2 = x^3 + b of the small-group build (same field)"""
    L, C, n = e.L, e.C, e.n
    kind, arg = case
    if kind == "svdw":
        for t in arg:
            out = buf(64)
            r = L.verif_svdw(out, b32(t))
            exp = M.svdw(t, C)
            st.calls += 1
            if exp is None:
                st.count("svdw-no-candidate-on-curve")
                continue
            st.count("svdw-ok")
            st.nt(t)
            if r != 1 or pt64(out.raw) != exp:
                st.fail("shallue_van_de_woestijne differs from model (b=%d)" % C.b, {"cfg": L.config, "t": hex(t)})
    else:
        seed = arg
        for bl in sg_scalar_encodings(n):
            g = buf(64)
            ret = L.generator_generate_blinded(L.ctx, g, seed, b32(bl))
            exp = M.generator_generate_blinded(seed, bl, C)
            st.calls += 1
            if bl >= n:
                st.count("generate_blinded-refused")
                if ret != 0:
                    st.fail("generate_blinded accepted blind >= group order", {"cfg": L.config, "seed": hx(seed), "blind": hex(bl)})
                continue
            if exp is None:
                st.count("generate-model-undefined")
                continue
            st.count("generate_blinded-ok")
            st.nt((seed, bl))
            if ret != 1 or gen_point(L, g) != exp:
                st.fail("generate_blinded differs from model in the small-group build", {"cfg": L.config, "seed": hx(seed), "blind": bl})
            if bl == 0:
                g0 = buf(64)
                r0 = L.generator_generate(L.ctx, g0, seed)
                st.calls += 1
                if r0 != 1 or g0.raw != g.raw:
                    st.fail("generate differs from generate_blinded with blind 0", {"cfg": L.config, "seed": hx(seed)})
    legal(L, st, "sg svdw/generate", {"cfg": L.config, "kind": kind})


# ================================================================== E1 production group
GEN_SEEDS = [b"\x00" * 32, b"\x00" * 31 + b"\x01", b"\xff" * 32]


class PR:
    pass


def prod_generators(L):
    """[(name, generator object (or address), model point)] - h, seed-derived, blinded, parsed"""
    C = SECP
    fill = seeded_fillers(2, b"c08g")
    out = []
    out.append(("h", L.var_ptr("secp256k1_generator_h"), M.GENERATOR_H))
    for s in GEN_SEEDS + [fill[0]]:
        g = buf(64)
        assert L.generator_generate(L.ctx, g, s) == 1
        out.append(("generate(%s)" % hx(s)[:8], g, M.generator_generate(s)))
    for bl in (1, N - 1, i32(fill[1]) % N):
        g = buf(64)
        assert L.generator_generate_blinded(L.ctx, g, GEN_SEEDS[1], b32(bl)) == 1
        out.append(("generate_blinded(..01,%s)" % hex(bl)[:10], g, M.generator_generate_blinded(GEN_SEEDS[1], bl)))
    for k in (1, N - 1, 2):
        pt = C.mulG(k)
        g = buf(64)
        assert L.generator_parse(L.ctx, g, M.generator_serialize(pt)) == 1
        out.append(("parse(%s*G)" % ("n-1" if k == N - 1 else str(k)), g, pt))
    return out


def prod_setup(cfg):
    def f():
        e = PR()
        e.L = lib(cfg)
        e.gens = prod_generators(e.L)
        e.checked = set()
        e.memo = {}
        return e
    return f


def gen_checked(e, st, gi):
    """the generator object must denote the model's point (asserted once per worker and generator)"""
    name, g, pt = e.gens[gi]
    if gi not in e.checked:
        e.checked.add(gi)
        if gen_point(e.L, g) != pt:
            st.fail("generator %s differs from the model point" % name, {"cfg": e.L.config, "generator": name})
    return name, g, pt


def prod_commit_case(e, case, st):
    """case = (generator index, blind): every value of the U64 alphabet"""
    L = e.L
    gi, blind, vals = case
    name, g, pt = gen_checked(e, st, gi)
    for v in vals:
        c, exp = check_commit(L, st, SECP, blind, v, g, pt, name)
        if exp is not None:
            st.nt((gi, blind, v))
    legal(L, st, "commit", {"cfg": L.config, "generator": name, "blind": hex(blind)})
    st.sample({"generator": name, "blind": hex(blind), "values": len(vals)})


def prod_infinity_case(e, case, st):
    """case = (k, v): generator k*G (through the generator parser); blinds -v*k + {-1,0,1} mod n: the middle one
    gives the point at infinity and must be refused, its neighbours are G and -G"""
    L, C = e.L, SECP
    k, v = case
    H = C.mulG(k)
    g = buf(64)
    r = L.generator_parse(L.ctx, g, M.generator_serialize(H))
    st.calls += 1
    if r != 1 or gen_point(L, g) != H:
        st.fail("generator_parse of k*G failed", {"cfg": L.config, "k": hex(k)})
        return
    for dlt in (-1, 0, 1):
        b = (-v * k + dlt) % N
        c, exp = check_commit(L, st, C, b, v, g, H, "known-log", {"k": hex(k), "delta": dlt})
        assert (exp is None) == (dlt == 0)
        if exp is not None:
            assert exp == (C.G if dlt == 1 else C.neg(C.G))
            st.nt((k, v, dlt))
    legal(L, st, "commit infinity", {"cfg": L.config, "k": hex(k), "v": v})
    st.sample({"generator": "k*G", "k": hex(k), "value": v, "refused_blind": hex((-v * k) % N)})


def svdw_alphabet():
    C = SECP
    c, d = M.svdw_constants(C)
    t = list(range(0, 17)) + [P - i for i in range(1, 17)]
    for k in range(26, 257, 26):
        t += [2**k - 1, 2**k, 2**k + 1]
    for k in range(32, 257, 32):
        t += [2**k - 1, 2**k, 2**k + 1]
    for k in range(52, 257, 52):
        t += [2**k - 1, 2**k, 2**k + 1]
    t += [(P - 1) // 2, (P + 1) // 2, P - 2**32, 2**256 - 2**32 - 978, c, P - c, d, P - d, N, N - 1, P - N, BETA, LAMBDA,
          int("55" * 32, 16), int("AA" * 32, 16)]
    for s in GEN_SEEDS:
        t += [M.hash_to_field(M.PREFIX1, s), M.hash_to_field(M.PREFIX2, s)]
    for f in seeded_fillers(4, b"c08t"):
        t.append(i32(f))
    seen, out = set(), []
    for x in t:
        if x is not None and 0 <= x < P and x not in seen:
            seen.add(x)
            out.append(x)
    return out


def prod_svdw_case(e, t, st):
    L, C = e.L, SECP
    out = buf(64)
    r = L.verif_svdw(out, b32(t))
    exp = M.svdw(t, C)
    st.calls += 1
    assert exp is not None and C.on_curve(exp)
    neg = M.svdw((P - t) % P, C)
    assert t == 0 or neg == C.neg(exp), "model: svdw(-t) != -svdw(t)"
    st.count("svdw-" + ("t=0" if t == 0 else "odd" if t & 1 else "even"))
    st.nt(t)
    if r != 1 or pt64(out.raw) != exp:
        st.fail("shallue_van_de_woestijne(t) differs from the specified map", {"cfg": L.config, "t": hex(t), "got": hx(out.raw), "model": [hex(exp[0]), hex(exp[1])]})
    legal(L, st, "svdw", {"cfg": L.config, "t": hex(t)})
    st.sample({"t": hex(t), "x": hex(exp[0])})


def prod_generate_case(e, case, st):
    """case = (seed, blind or None)"""
    L, C = e.L, SECP
    seed, blind = case
    info = {"cfg": L.config, "seed": hx(seed), "blind": None if blind is None else hex(blind)}
    g0 = buf(b"\x11" * 64)
    r0 = L.generator_generate(L.ctx, g0, seed)
    A = M.generator_generate(seed, C)
    st.calls += 1
    assert A is not None and C.on_curve(A)
    if r0 != 1 or gen_point(L, g0) != A:
        st.fail("generator_generate differs from svdw(H(1st||seed)) + svdw(H(2nd||seed))", info)
        return
    if blind is None:
        st.count("generate-ok")
        st.nt(("g", seed))
        g1 = buf(b"\x22" * 64)
        L.generator_generate(L.ctx, g1, seed)
        if g1.raw != g0.raw:
            st.fail("generator_generate is not deterministic", info)
        ser = gen_ser(L, g0)
        want = M.generator_serialize(A, C)
        g2 = buf(64)
        rp = L.generator_parse(L.ctx, g2, want)
        st.calls += 3
        if ser != want:
            st.fail("generator_serialize differs from model", dict(info, got=hx(ser), model=hx(want)))
        if rp != 1 or gen_point(L, g2) != A or gen_ser(L, g2) != want:
            st.fail("generator encoding does not round-trip", info)
    else:
        g = buf(b"\x33" * 64)
        ret = L.generator_generate_blinded(L.ctx, g, seed, b32(blind))
        exp = M.generator_generate_blinded(seed, blind, C)
        st.calls += 1
        if blind >= N:
            st.count("generate_blinded-refused")
            if ret != 0:
                st.fail("generate_blinded accepted blind >= n", info)
        else:
            st.count("generate_blinded-ok")
            st.nt(("b", seed, blind))
            assert exp == C.add(A, C.mulG(blind))
            if ret != 1 or gen_point(L, g) != exp:
                st.fail("generate_blinded != generate + blind*G", info)
            else:
                # header: same as generate, converted to a public key, ec_pubkey_tweak_add, converted back
                pk = pubkey_from_point(L, A)
                rt = L.ec_pubkey_tweak_add(L.ctx, pk, b32(blind))
                st.calls += 1
                if rt != 1 or point_from_pubkey(L, pk) != exp:
                    st.fail("generate_blinded differs from generate followed by ec_pubkey_tweak_add", info)
                if blind == 0 and g.raw != g0.raw:
                    st.fail("generate_blinded with blind 0 differs from generate", info)
                ser = gen_ser(L, g)
                st.calls += 1
                if ser != M.generator_serialize(exp, C):
                    st.fail("generator_serialize of a blinded generator differs from model", info)
    legal(L, st, "generate", info)
    st.sample(info)


# ---- tallies of 0..32 commitments
TOTALS = [2**64 - 1, 2**63, 10**19, 12345, 1, 0, 2**32, 2**63 + 1, 2**64 - 2, 3]


def split_total(total, k, salt, alpha):
    """k values in [0, 2^64) that sum to `total` exactly"""
    vals, rem = [], total
    for i in range(k - 1):
        a = alpha[(salt + 7 * i) % len(alpha)] if i % 2 == 0 else rem // 2
        a = min(a, rem)
        vals.append(a)
        rem -= a
    vals.append(rem)
    return vals


def build_tally(npos, nneg, nassets, u64, scn):
    """deterministic balanced instance: list of (side, asset, value, blind) with the blind of the last entry left
    to be completed by blind_sum; values balance per asset"""
    ent = []
    for i in range(npos):
        ent.append(["p", i % nassets, 0, scn[(5 * i + npos + 3 * nneg) % len(scn)]])
    for j in range(nneg):
        ent.append(["n", (2 * j + 1) % nassets, 0, scn[(7 * j + 2 * npos + nneg + 11) % len(scn)]])
    for a in range(nassets):
        pi = [x for x in ent if x[0] == "p" and x[1] == a]
        ni = [x for x in ent if x[0] == "n" and x[1] == a]
        if pi and ni:
            tot = TOTALS[(3 * npos + nneg + a) % len(TOTALS)]
            for x, v in zip(pi, split_total(tot, len(pi), npos + a, u64)):
                x[2] = v
            for x, v in zip(ni, split_total(tot, len(ni), nneg + 2 * a + 5, u64)):
                x[2] = v
    return ent


def prod_tally_case(e, case, st):
    """case = (npos, nneg): balanced instance over 3 assets + every single deviation listed in the rule"""
    L, C = e.L, SECP
    npos, nneg = case
    u64, scn = e.u64, e.scn
    assets = e.assets
    info = {"cfg": L.config, "npos": npos, "nneg": nneg}

    def mcommit(b, v, a):
        k = (b, v, a)
        if k not in e.memo:
            e.memo[k] = M.pedersen_commit(b, v, e.gens[assets[a]][2], C)
        return e.memo[k]

    rc = {}

    def rcommit(b, v, a):
        """real commitment object (one library call per distinct (blind, value, asset) of this case), checked against the model"""
        if (b, v, a) not in rc:
            rc[(b, v, a)] = rcommit1(b, v, a)
        return rc[(b, v, a)]

    def rcommit1(b, v, a):
        name, g, pt = gen_checked(e, st, assets[a])
        c = buf(64)
        ret = L.pedersen_commit(L.ctx, c, b32(b), v, g)
        exp = mcommit(b, v, a)
        st.calls += 1
        if (ret == 1) != (exp is not None) or (exp is not None and commit_ser(L, c) != M.commitment_serialize(exp, C)):
            st.fail("pedersen_commit differs from model inside a tally", dict(info, blind=hex(b), value=v, generator=name))
            return None
        return c if exp is not None else None

    def tally(entries_pos, entries_neg, expect, what):
        cp = [rcommit(b, v, a) for (_, a, v, b) in entries_pos]
        cn = [rcommit(b, v, a) for (_, a, v, b) in entries_neg]
        if any(c is None for c in cp + cn):
            st.count("tally-skip-degenerate-commitment")
            return
        mp = [mcommit(b, v, a) for (_, a, v, b) in entries_pos]
        mn = [mcommit(b, v, a) for (_, a, v, b) in entries_neg]
        exp = M.verify_tally(mp, mn, C)
        assert expect is None or exp == expect, "model verdict differs from the construction (%s)" % what
        got = L.pedersen_verify_tally(L.ctx, parr(cp), len(cp), parr(cn), len(cn))
        st.calls += 1
        st.count("tally-%s-%s" % (what, "balanced" if exp else "unbalanced"))
        if exp:
            st.nt((npos, nneg, what))
        if got != (1 if exp else 0):
            st.fail("verify_tally=%d, model %d (%s)" % (got, exp, what),
                    dict(info, what=what, pos=[(a, v, hex(b)) for (_, a, v, b) in entries_pos], neg=[(a, v, hex(b)) for (_, a, v, b) in entries_neg]))

    if npos + nneg == 0:
        got = L.pedersen_verify_tally(L.ctx, None, 0, None, 0)
        st.calls += 1
        st.count("tally-empty-balanced")
        st.nt("empty")
        if got != 1:
            st.fail("verify_tally of two empty lists must be 1", info)
        return
    ent = build_tally(npos, nneg, len(assets), u64, scn)
    if len(ent) == 1:
        x = ent[0]
        x[2] = TOTALS[(npos + 2 * nneg) % len(TOTALS)]
        x[3] = x[3] or 1
        tally([x] if npos else [], [x] if nneg else [], False, "single")
        legal(L, st, "tally", info)
        return
    # complete the last blinding factor with the real blind_sum (signs: positives +, negatives -)
    for attempt in range(4):
        pos = [x for x in ent if x[0] == "p"]
        neg = [x for x in ent if x[0] == "n"]
        last = ent[-1]
        others = [x for x in ent if x is not last]
        if last[0] == "n":
            bl, npz = [x[3] for x in others], npos       # b_last = sum(pos) - sum(other neg)
        else:
            bl, npz = [x[3] for x in others], 0          # b_last = -sum(other pos)
        ret, out = call_blind_sum(L, bl, npz)
        expb = M.blind_sum(bl, npz, C)
        st.calls += 1
        if ret != 1 or out != b32(expb):
            st.fail("blind_sum differs from model", dict(info, blinds=[hex(b) for b in bl], npositive=npz))
            return
        last[3] = expb
        if all(mcommit(x[3], x[2], x[1]) is not None for x in ent):
            break
        # a commitment would be the point at infinity (value 0 and blind 0): the library must refuse it too
        bad = [x for x in ent if mcommit(x[3], x[2], x[1]) is None]
        for x in bad:
            rcommit(x[3], x[2], x[1])
        st.count("tally-rebuilt-after-infinity-commitment")
        for x in bad:
            (x if x is not last else ent[0])[3] = scn[(3 + attempt + npos) % len(scn)] or 1
    else:
        st.count("tally-skip-degenerate-commitment")
        return
    tally(pos, neg, True, "balanced")
    tally(neg, pos, True, "swapped")

    def bump(x):
        y = list(x)
        y[2] = x[2] + 1 if x[2] < U64MAX else x[2] - 1
        return y
    if pos:
        i = (npos + nneg) % len(pos)
        tally(pos[:i] + [bump(pos[i])] + pos[i + 1:], neg, False, "pos-value-off-by-one")
        tally(pos[:-1], neg, False, "pos-one-dropped")
    if neg:
        j = (npos + 2 * nneg) % len(neg)
        tally(pos, neg[:j] + [bump(neg[j])] + neg[j + 1:], False, "neg-value-off-by-one")
        tally(pos, neg[1:], False, "neg-one-dropped")
    # blinding factor off by one
    x = ent[(npos * 3 + nneg) % len(ent)]
    y = list(x)
    y[3] = (x[3] + 1) % N
    if mcommit(y[3], y[2], y[1]) is not None:
        tally([y if z is x else z for z in pos], [y if z is x else z for z in neg], False, "blind-off-by-one")
    # one commitment moved to another asset (same value and blind): unbalanced unless the value is 0
    x = ent[(npos + nneg * 5) % len(ent)]
    y = list(x)
    y[1] = (x[1] + 1) % len(assets)
    if mcommit(y[3], y[2], y[1]) is not None:
        tally([y if z is x else z for z in pos], [y if z is x else z for z in neg], x[2] == 0, "asset-switched")
    # the same commitment added to both sides keeps the verdict
    if npos < 32 and nneg < 32:
        tally(pos + [ent[0]], neg + [ent[0]], True, "same-added-both-sides")
    legal(L, st, "tally", info)
    st.sample(dict(info, assets=[e.gens[a][0] for a in assets], values=[x[2] for x in ent][:6]))


def prod_wrap_case(e, case, st):
    """values that only balance modulo 2^64 (or 2^63) must not tally"""
    L, C = e.L, SECP
    pv, nv = case
    gi = e.assets[1]
    name, g, H = gen_checked(e, st, gi)
    bp = [e.scn[(3 * i + 1) % len(e.scn)] for i in range(len(pv))]
    bn = [e.scn[(5 * i + 2) % len(e.scn)] for i in range(len(nv) - 1)]
    ret, out = call_blind_sum(L, bp + bn, len(bp))
    st.calls += 1
    last = M.blind_sum(bp + bn, len(bp), C)
    if ret != 1 or out != b32(last):
        st.fail("blind_sum differs from model", {"cfg": L.config})
        return
    bn.append(last)
    cs, ms = [], []
    for b, v in list(zip(bp, pv)) + list(zip(bn, nv)):
        c, pt = check_commit(L, st, C, b, v, g, H, "wrap")
        cs.append(c)
        ms.append(pt)
    if any(c is None for c in cs):
        st.count("wrap-skip-degenerate")
        return
    k = len(pv)
    exp = M.verify_tally(ms[:k], ms[k:], C)
    assert exp == (sum(pv) == sum(nv))
    got = L.pedersen_verify_tally(L.ctx, parr(cs[:k]), k, parr(cs[k:]), len(nv))
    st.calls += 1
    st.count("wrap-balanced" if exp else "wrap-unbalanced")
    if exp:
        st.nt(case)
    if got != (1 if exp else 0):
        st.fail("verify_tally=%d but sum of values %d vs %d" % (got, sum(pv), sum(nv)), {"cfg": L.config, "pos_values": list(pv), "neg_values": list(nv)})
    legal(L, st, "wrap", {"cfg": L.config})
    st.sample({"pos_values": list(pv), "neg_values": list(nv), "balanced": exp})


def prod_blind_sum_case(e, case, st):
    """case = (blinds, npositive)"""
    L = e.L
    bl, npos = case
    ret, out = call_blind_sum(L, list(bl), npos)
    exp = M.blind_sum(list(bl), npos, SECP)
    st.calls += 1
    info = {"cfg": L.config, "blinds": [hex(b) for b in bl][:6], "n": len(bl), "npositive": npos}
    if exp is None:
        st.count("blind_sum-refused")
        if ret != 0:
            st.fail("blind_sum accepted a blinding factor >= n", info)
    else:
        st.count("blind_sum-ok")
        st.nt(case)
        if ret != 1 or out != b32(exp):
            st.fail("blind_sum differs from model", dict(info, got=hx(out), model=hex(exp)))
    legal(L, st, "blind_sum", info)
    st.sample(info)


def prod_bgbs_case(e, case, st):
    """case = ("prod", values, n_inputs, r alphabet, r' alphabet): every (r, r') tuple over the alphabets, or
    ("one", values, generator blinds, blinding factors, n_inputs): a single call"""
    L = e.L
    if case[0] == "one":
        _, values, rs, fs, n_in = case
        k = len(values)
        bg = e.memo.setdefault(("bg", k), BG(k))
        if check_bgbs(L, st, SECP, bg, values, rs, fs, n_in) is not None:
            st.nt(case)
    else:
        _, values, n_in, ra, fa = case
        k = len(values)
        bg = e.memo.setdefault(("bg", k), BG(k))
        ok = 0
        for rs in itertools.product(ra, repeat=k):
            for fs in itertools.product(fa, repeat=k):
                if check_bgbs(L, st, SECP, bg, values, rs, fs, n_in) is not None:
                    ok += 1
        if ok:
            st.nt((values, n_in))        # accepted (r, r') tuples are counted in the bgbs-ok bucket
        st.sample({"values": list(values), "n_inputs": n_in, "r_alphabet": len(ra), "r'_alphabet": len(fa), "accepted": ok})
    legal(L, st, "bgbs", {"cfg": L.config, "n_total": k, "n_inputs": n_in})


def flow_values(k, n_in, asset, u64):
    """values balanced per asset: inputs take boundary values, outputs split the per-asset input total
    (totals above 2^64-1 are spread over several outputs); an asset present on one side only gets zeros"""
    vals = [0] * k
    for a in (0, 1):
        ins = [i for i in range(n_in) if asset[i] == a]
        outs = [i for i in range(n_in, k) if asset[i] == a]
        if not ins or not outs:
            continue
        iv = [[2**63, 2**62 + 1, 7][(j + a) % 3] for j in range(len(ins))]
        if sum(iv) > U64MAX * len(outs):
            iv = [5 + j for j in range(len(ins))]
        tot = sum(iv)
        if tot <= U64MAX:
            ov = split_total(tot, len(outs), a + k, u64)
        else:
            ov, rem = [], tot
            for _ in outs:
                ov.append(min(rem, U64MAX))
                rem -= ov[-1]
            assert rem == 0
        for i, v in zip(ins, iv):
            vals[i] = v
        for i, v in zip(outs, ov):
            vals[i] = v
    assert all(0 <= v <= U64MAX for v in vals)
    return vals


def prod_flow_case(e, case, st):
    """case = (k, n_inputs, asset pattern, value pattern, r pattern, r' pattern): blinded assets end to end:
    A'_i = generate_blinded(seed_asset(i), r_i); r' completed by blind_generator_blind_sum; P_i = commit(r'_i, v_i, A'_i);
    verify_tally(outputs, inputs) must be 1 exactly when the values balance for each asset."""
    L, C = e.L, SECP
    k, n_in, apat, vpat, rpat, fpat = case
    seeds = [GEN_SEEDS[1], GEN_SEEDS[2]]
    asset = [(i % 2 if apat == "alt" else 0) for i in range(k)]
    RP = {"zero": [0] * 4, "edge": [1, N - 1, 2, N - 2], "mixed": [N - 1, 0, e.scn[9], 1]}[rpat]
    FP = {"zero": [0] * 4, "edge": [N - 1, 1, N - 2, 5], "mixed": [e.scn[7], N - 1, 0, e.scn[12]]}[fpat]
    rs, fs = RP[:k], FP[:k]
    vals = flow_values(k, n_in, asset, e.u64)
    if vpat == "out+1":
        i = k - 1
        vals[i] = vals[i] + 1 if vals[i] < U64MAX else vals[i] - 1
    elif vpat == "in+1" and n_in:
        vals[0] = vals[0] + 1 if vals[0] < U64MAX else vals[0] - 1
    elif vpat == "zero":
        vals = [0] * k
    bal = all(sum((-1 if i < n_in else 1) * vals[i] for i in range(k) if asset[i] == a) == 0 for a in (0, 1))
    info = {"cfg": L.config, "k": k, "n_inputs": n_in, "assets": asset, "values": vals, "generator_blinds": [hex(r) for r in rs], "blinding_factors": [hex(f) for f in fs]}
    bg = e.memo.setdefault(("bg", k), BG(k))
    fin = check_bgbs(L, st, C, bg, vals, rs, fs, n_in)
    if fin is None:
        return
    cs, ms = [], []
    for i in range(k):
        g = buf(64)
        r = L.generator_generate_blinded(L.ctx, g, seeds[asset[i]], b32(rs[i]))
        st.calls += 1
        mk = ("gb", asset[i], rs[i])
        if mk not in e.memo:
            e.memo[mk] = M.generator_generate_blinded(seeds[asset[i]], rs[i], C)
        A = e.memo[mk]
        if r != 1 or gen_point(L, g) != A:
            st.fail("generate_blinded differs from model", info)
            return
        c, pt = check_commit(L, st, C, fin[i], vals[i], g, A, "flow")
        cs.append(c)
        ms.append(pt)
    if any(c is None for c in cs):
        st.count("flow-skip-commit-infinity")
        return
    exp = M.verify_tally(ms[n_in:], ms[:n_in], C)
    assert exp == bal, "model verdict differs from per-asset value balance"
    got = L.pedersen_verify_tally(L.ctx, parr(cs[n_in:]), k - n_in, parr(cs[:n_in]), n_in)
    st.calls += 1
    st.count("flow-balanced" if exp else "flow-unbalanced")
    if exp:
        st.nt(case)
    if got != (1 if exp else 0):
        st.fail("blinded assets: verify_tally=%d, values balance per asset=%s" % (got, bal), info)
    legal(L, st, "flow", info)
    st.sample(info)


# ---- parsers
def parser_xs():
    """[(x, tag)] x-coordinates as 256-bit integers"""
    C = SECP
    out = []

    def first(start, step, want_on, cnt, tag, limit=None):
        x, got = start, 0
        while got < cnt:
            on = x < P and C.lift_x(x) is not None
            if on == want_on:
                out.append((x, tag))
                got += 1
            x += step
    for x, tag in ((P - 1, "p-1"), (P, "p"), (P + 1, "p+1"), (2**256 - 1, "2^256-1"), (N, "n"), (0, "0")):
        out.append((x, tag + ("-on-curve" if x < P and C.lift_x(x) is not None else "")))
    nb = len(out)
    first(0, 1, True, 3, "small-on-curve")
    first(0, 1, False, 3, "small-off-curve")
    small = [x for x, t in out[nb:]]
    for x in small:
        out.append((x + P, "small+p"))                     # same residue, non-canonical: must be rejected
    first(P - 1, -1, True, 2, "top-on-curve")
    first(P - 1, -1, False, 2, "top-off-curve")
    first(N, 1, True, 2, "x>=n-on-curve")
    first(N, 1, False, 1, "x>=n-off-curve")
    out += [(C.G[0], "G.x"), (C.add(C.G, C.G)[0], "2G.x"), (M.GENERATOR_H[0], "h.x"), (2**255, "2^255")]
    for f in seeded_fillers(2, b"c08x"):
        first(i32(f) % P, 1, True, 1, "filler-on-curve")
        first(i32(f) % P, 1, False, 1, "filler-off-curve")
    seen, res = set(), []
    for x, t in out:
        if x not in seen and 0 <= x < 2**256:
            seen.add(x)
            res.append((x, t))
    return res


def prod_parser_case(e, case, st):
    """case = prefix byte: both parsers on prefix || x for every x of the list"""
    L, C = e.L, SECP
    pre = case
    for x, tag in e.xs:
        inp = bytes([pre]) + b32(x)
        for which in ("generator", "commitment"):
            obj = buf(b"\x6b" * 64)
            if which == "generator":
                ret = L.generator_parse(L.ctx, obj, exact(inp))
                exp = M.generator_parse(inp, C)
            else:
                ret = L.pedersen_commitment_parse(L.ctx, obj, exact(inp))
                exp = M.commitment_parse(inp, C)
            st.calls += 1
            info = {"cfg": L.config, "parser": which, "input": hx(inp), "x": tag}
            if exp is None:
                okpre = (pre & 0xFE) == (10 if which == "generator" else 8)
                st.count("%s-reject-%s" % (which, tag if okpre else "prefix"))
                if ret != 0:
                    st.fail("%s parser accepted a non-canonical / invalid encoding" % which, info)
                continue
            st.count("%s-accept" % which)
            st.nt((which, inp))
            assert C.on_curve(exp)
            if ret != 1:
                st.fail("%s parser rejected a valid encoding" % which, info)
                continue
            if which == "generator":
                pt, ser = gen_point(L, obj), gen_ser(L, obj)
            else:
                pt, ser = commit_point(L, obj), commit_ser(L, obj)
            st.calls += 1
            if pt != exp:
                st.fail("%s parser produced a different point than the model" % which, info)
            if ser != inp:
                st.fail("%s encoding does not round-trip" % which, dict(info, reserialized=hx(ser)))
    legal(L, st, "parsers", {"cfg": L.config, "prefix": pre})
    st.sample({"prefix": pre, "x_values": len(e.xs)})


def roundtrip_points():
    C = SECP
    pts = [C.G, C.add(C.G, C.G), C.mulG(N - 1), C.mulG(LAMBDA), C.mulG(N - 2), C.mulG((N + 1) // 2), M.GENERATOR_H]
    for x, tag in parser_xs():
        if x < P and C.lift_x(x) is not None:
            pts.append(C.lift_x(x))
    for t in (0, 1, 2, P - 1):
        pts.append(M.svdw(t, C))
    out = []
    for p_ in pts:
        out += [p_, C.neg(p_)]
    return out


def prod_roundtrip_case(e, pt, st):
    """object (through the module's save routine) -> serialize -> parse -> object, for both codecs"""
    L, C = e.L, SECP
    info = {"cfg": L.config, "point": [hex(pt[0]), hex(pt[1])]}
    g = gen_from_point(L, pt)
    ser = gen_ser(L, g)
    want = M.generator_serialize(pt, C)
    g2 = buf(64)
    r = L.generator_parse(L.ctx, g2, want)
    st.calls += 3
    if ser != want:
        st.fail("generator_serialize differs from model", dict(info, got=hx(ser), model=hx(want)))
    if r != 1 or gen_point(L, g2) != pt or g2.raw != g.raw:
        st.fail("generator does not round-trip", info)
    c = buf(64)
    assert L.verif_commitment_save_xy(c, xy64(pt)) == 1
    ser = commit_ser(L, c)
    want = M.commitment_serialize(pt, C)
    c2 = buf(64)
    r = L.pedersen_commitment_parse(L.ctx, c2, want)
    st.calls += 3
    if ser != want:
        st.fail("commitment_serialize differs from model", dict(info, got=hx(ser), model=hx(want)))
    if r != 1 or commit_point(L, c2) != pt or commit_ser(L, c2) != want:
        st.fail("commitment does not round-trip", info)
    # the two encodings of a point differ only in the prefix (8/9 vs 10/11, same residuosity bit)
    if want[1:] != M.generator_serialize(pt, C)[1:] or (want[0] ^ 8) != (M.generator_serialize(pt, C)[0] ^ 10):
        st.fail("model: codecs inconsistent", info)
    # a commitment to (blind 0, value 1, generator pt) is pt itself; (blind 1, value 0) is G
    c3, exp = check_commit(L, st, C, 0, 1, g, pt, "identity")
    assert exp == pt
    c4, exp = check_commit(L, st, C, 1, 0, g, pt, "value0")
    assert exp == C.G
    st.count("roundtrip-" + ("qr-y" if C.is_square(pt[1]) else "nonqr-y"))
    st.nt(pt)
    legal(L, st, "roundtrip", info)
    st.sample(info)


def prod_illegal_case(e, case, st):
    """illegal-argument calls at API-level ARG_CHECKs: only 'callback fired and 0 returned' is asserted"""
    L = e.L
    name, g, H = e.gens[0]
    c = buf(64)
    out = buf(32)
    one = buf(b32(1))
    pa = parr([one])
    cm = buf(64)
    assert L.pedersen_commit(L.ctx, cm, b32(1), 1, g) == 1
    ca = parr([cm])
    vals = (c_uint64 * 2)(1, 1)
    f1, f2 = buf(b32(1)), buf(b32(2))
    fa = parr([f1, f2])
    ra = parr([one, one])
    calls = {
        "commit/static-ctx": lambda: L.pedersen_commit(L.static_ctx, c, b32(1), 1, g),
        "commit/null-commit": lambda: L.pedersen_commit(L.ctx, None, b32(1), 1, g),
        "commit/null-blind": lambda: L.pedersen_commit(L.ctx, c, None, 1, g),
        "commit/null-gen": lambda: L.pedersen_commit(L.ctx, c, b32(1), 1, None),
        "generate_blinded/static-ctx": lambda: L.generator_generate_blinded(L.static_ctx, c, b32(1), b32(1)),
        "generate/null-gen": lambda: L.generator_generate(L.ctx, None, b32(1)),
        "generate/null-seed": lambda: L.generator_generate(L.ctx, c, None),
        "generate_blinded/null-blind": lambda: L.generator_generate_blinded(L.ctx, c, b32(1), None),
        "generator_parse/null-in": lambda: L.generator_parse(L.ctx, c, None),
        "generator_serialize/null-out": lambda: L.generator_serialize(L.ctx, None, g),
        "commitment_parse/null-in": lambda: L.pedersen_commitment_parse(L.ctx, c, None),
        "commitment_serialize/null-commit": lambda: L.pedersen_commitment_serialize(L.ctx, out, None),
        "blind_sum/npositive>n": lambda: L.pedersen_blind_sum(L.ctx, out, pa, 1, 2),
        "blind_sum/npositive>n=0": lambda: L.pedersen_blind_sum(L.ctx, out, pa, 0, 1),
        "blind_sum/null-out": lambda: L.pedersen_blind_sum(L.ctx, None, pa, 1, 1),
        "blind_sum/null-entry": lambda: L.pedersen_blind_sum(L.ctx, out, (c_void_p * 1)(None), 1, 1),
        "tally/null-pos": lambda: L.pedersen_verify_tally(L.ctx, None, 1, ca, 1),
        "tally/null-neg": lambda: L.pedersen_verify_tally(L.ctx, ca, 1, None, 1),
        "tally/null-entry": lambda: L.pedersen_verify_tally(L.ctx, (c_void_p * 1)(None), 1, ca, 1),
        "bgbs/n_total=n_inputs=0": lambda: L.pedersen_blind_generator_blind_sum(L.ctx, vals, ra, fa, 0, 0),
        "bgbs/n_total=n_inputs=1": lambda: L.pedersen_blind_generator_blind_sum(L.ctx, vals, ra, fa, 1, 1),
        "bgbs/n_total=n_inputs=2": lambda: L.pedersen_blind_generator_blind_sum(L.ctx, vals, ra, fa, 2, 2),
        "bgbs/n_inputs>n_total": lambda: L.pedersen_blind_generator_blind_sum(L.ctx, vals, ra, fa, 1, 2),
        "bgbs/null-values": lambda: L.pedersen_blind_generator_blind_sum(L.ctx, None, ra, fa, 2, 1),
        "bgbs/null-generator-blinds": lambda: L.pedersen_blind_generator_blind_sum(L.ctx, vals, None, fa, 2, 1),
        "bgbs/null-blinding-factors": lambda: L.pedersen_blind_generator_blind_sum(L.ctx, vals, ra, None, 2, 1),
    }
    L.cb_reset()
    ret = calls[case]()
    ill, err = L.cb_take()
    st.calls += 1
    st.count("illegal-call")
    st.nt(case)
    if ill < 1 or ret != 0 or err != 0:
        st.fail("illegal-argument call %s: illegal callbacks=%d errors=%d ret=%d (expected >=1, 0, 0)" % (case, ill, err, ret), {"cfg": L.config, "call": case})
    if f1.raw != b32(1) or f2.raw != b32(2):
        st.fail("blinding factors modified by a refused call (%s)" % case, {"cfg": L.config, "call": case})


ILLEGAL = ["commit/static-ctx", "commit/null-commit", "commit/null-blind", "commit/null-gen", "generate_blinded/static-ctx",
           "generate/null-gen", "generate/null-seed", "generate_blinded/null-blind", "generator_parse/null-in",
           "generator_serialize/null-out", "commitment_parse/null-in", "commitment_serialize/null-commit",
           "blind_sum/npositive>n", "blind_sum/npositive>n=0", "blind_sum/null-out", "blind_sum/null-entry", "tally/null-pos",
           "tally/null-neg", "tally/null-entry", "bgbs/n_total=n_inputs=0", "bgbs/n_total=n_inputs=1", "bgbs/n_total=n_inputs=2",
           "bgbs/n_inputs>n_total", "bgbs/null-values", "bgbs/null-generator-blinds", "bgbs/null-blinding-factors"]


# ================================================================== driver
def sg_phases(run, cfg, thorough):
    n = int(cfg.split("-")[0][2:])
    fast = "-" not in cfg
    setup = sg_setup(cfg)
    big = n > 50
    # ---- commit
    hs = list(range(1, n)) if not big else [1, 2, 99, 100, 197, 198]
    if big:
        blinds = list(range(n)) + [n, n + 1, 2 * n - 1, 2 * n, 2**32, 2**224 + 1, 2**256 - 1]
        vals = [0, 1, 2, 3, n - 1, n, n + 1, 2 * n - 1, 2 * n, 2 * n + 1] + U64_SMALL
    else:
        blinds = sg_scalar_encodings(n)
        vals = list(range(0, 2 * n + 1)) + [2**32 - 1, 2**32, 2**63 - 1, 2**63, 2**63 + 1, 2**64 - 2, 2**64 - 1]
    chunk = 14
    run_phase(run, "%s/commit-total" % cfg, sg_commit_case, [(h, vals, blinds[i:i + chunk]) for h in hs for i in range(0, len(blinds), chunk)], setup=setup,
              rule="pedersen_commit for every generator h*G (h in %s), every blind in Z_N in the encodings b, b+N, b+2N, b+floor((2^32-1)/N)N, b+2^32, b+2^224, b+2^255 and 2^256-1, every value in %s: returns 1 with the encoding of (b+v*h)G, 0 iff encoding >= N or the sum is infinity; serialize/parse round trip; non-trivial = accepted (b, v mod N, h)" % ("1..N-1" if not big else str(hs), "0..2N and {2^32-1,2^32,2^63-1,2^63,2^63+1,2^64-2,2^64-1}" if not big else "{0,1,2,3,N-1,N,N+1,2N-1,2N,2N+1,2^32,2^63-1,2^63,2^64-2,2^64-1}"))
    # ---- tally
    logs = list(range(1, n)) if not big else [1, 2, 3, 99, 100, 196, 197, 198]
    d_ord = 3 if (thorough and fast and not big) else 2
    cases = [(t, "ordered", d_ord, logs) for t in tuples_upto(logs, d_ord)]
    run_phase(run, "%s/tally-ordered<=%d+%d" % (cfg, d_ord, d_ord), sg_tally_case, cases, setup=setup,
              rule="verify_tally for every pair of ordered lists of <= %d positive and <= %d negative commitments over the %d non-zero points listed (commitment objects from the real parser): 1 iff signed sum of logs = 0 mod N; empty lists as NULL and non-NULL; non-trivial = balanced pairs" % (d_ord, d_ord, len(logs)))
    if not big and (fast or thorough):
        cases = [(t, "multiset", 3, logs) for t in multisets_upto(logs, 3)]
        run_phase(run, "%s/tally-multisets<=3+3" % cfg, sg_tally_case, cases, setup=setup,
                  rule="verify_tally for every pair of multisets of <= 3 + <= 3 commitments over all N-1 non-zero points")
    # ---- blind_sum
    alpha = (list(range(n)) if not big else [0, 1, 2, 99, 100, 197, 198]) + sg_overflow_encodings(n)
    cases = [(0, 0, alpha)] + [(k, a, alpha) for k in (1, 2, 3) for a in alpha]
    run_phase(run, "%s/blind_sum-total" % cfg, sg_blind_sum_case, cases, setup=setup, light=True,
              rule="blind_sum for every tuple of <= 3 blinds over %s plus overflow encodings {N,N+1,2N-1,2N,kN+1,2^32,2^224+3,2^256-1}, every npositive: 0 iff an encoding >= N, else the signed sum mod N; non-trivial = accepted" % ("Z_N" if not big else "7 residues"))
    if big:
        return
    # ---- blind_generator_blind_sum
    zn = list(range(n))
    v1 = zn + [n, 2 * n + 1, 2**63, 2**64 - 1]
    cases = [(1, 0, (v,), alpha, alpha) for v in v1]
    sub = zn if (thorough and fast) else [0, 1, 2, n // 2, n - 2, n - 1] if (thorough or fast) else [0, 1, n - 1]
    cases += [(2, ni, (a, b_), zn, zn) for ni in (0, 1) for a in sub for b_ in sub]
    cases += [(3, ni, vs, [0, 1, 5 % n, n - 1], [0, 1, 7 % n, n - 1]) for ni in (0, 1, 2) for vs in itertools.product([0, 1, n - 1], repeat=3)]
    run_phase(run, "%s/blind_generator_blind_sum-total" % cfg, sg_bgbs_case, cases, setup=setup,
              rule="blind_generator_blind_sum: n_total=1: every value in Z_N+{N,2N+1,2^63,2^64-1} x every r, r' incl. overflow encodings; n_total=2: every (r,r') in (Z_N^2)^2 x values in %s^2, n_inputs 0 and 1; n_total=3: v in {0,1,N-1}^3, r in {0,1,5,N-1}^3, r' in {0,1,7,N-1}^3, n_inputs 0..2: last blinding factor = model, other entries untouched, 0 iff an encoding >= N" % ("Z_N" if (thorough and fast) else "{0,1,2,N/2,N-2,N-1}" if (thorough or fast) else "{0,1,N-1}"))
    cases = [(k, ni, slot, which) for k in (1, 2, 3) for ni in range(k) for slot in range(k) for which in (0, 1)]
    run_phase(run, "%s/blind_generator_blind_sum-overflow" % cfg, sg_bgbs_overflow_case, cases, setup=setup, light=True,
              rule="one of 8 overflow encodings in every slot of generator_blind / blinding_factor for n_total <= 3 and every n_inputs; other scalars over Z_N (n_total=1), {0,1,N-1} (2), {0,N-1} (3); values {0,1,N-1,2^64-1} (1), {0,2^64-1}^2 (2), (1,0,2^64-1),(0,0,0) (3): must return 0")
    # ---- helper output -> commitments -> tally
    gl = [1, 2, 5 % n] if n > 5 else [1, 2, 3]
    V = [0, 1, 2, n - 1]
    cases = [(1, 0, (a,), (v,)) for a in range(1, n) for v in V]
    cases += [(2, ni, al, vs) for ni in (0, 1) for al in itertools.product(gl, repeat=2) for vs in itertools.product(V, repeat=2)]
    cases += [(3, ni, al, vs) for ni in (0, 1, 2) for al in ((1, 1, 1), (1, 2, 1), (1, 2, 5 % n or 3), (2, 1, 1)) for vs in itertools.product([0, 1, n - 1], repeat=3)]
    run_phase(run, "%s/helper-commit-tally" % cfg, sg_flow_case, cases, setup=setup,
              rule="n_total <= 3 commitments under blinded generators (a_i + r_i)G completed by blind_generator_blind_sum and built with pedersen_commit; n_total 1,2: v in {0,1,2,N-1}, a in 1..N-1 resp. {1,2,5}^2, r in {0,1,N-1}, r' in {0,3,N-1}; n_total 3: v in {0,1,N-1}^3, 4 generator triples, r in {0,N-1}^3, r' in {0,3}^3; every n_inputs: verify_tally(outputs, inputs) = 1 iff sum sign_i v_i a_i = 0 mod N; non-trivial = balanced")
    # ---- map and generator derivation on the small curve
    ts = list(range(0, 41)) + [P - i for i in range(1, 41)]
    cases = [("svdw", ts[i::8]) for i in range(8)] + [("gen", s) for s in GEN_SEEDS + seeded_fillers(1, b"c08sg")]
    run_phase(run, "%s/svdw-generate" % cfg, sg_svdw_generate_case, cases, setup=setup, light=True,
              rule="Shallue-van de Woestijne map for t in 0..40, p-40..p-1 on y^2=x^3+%s and generate/generate_blinded for 4 seeds x every blind encoding against the same model instantiated with that curve" % {7: "6", 13: "2", 199: "4"}[n])


def prod_phases(run, cfg, thorough, first):
    def setup():
        e = prod_setup(cfg)()
        e.u64 = u64_alphabet()
        e.scn = [v for v in sc_alphabet() if v < N]
        e.assets = [0, 2, 6]      # h, generate(..01), generate_blinded(..01, n-1)
        e.xs = parser_xs()
        return e
    full = first or thorough
    u64 = u64_alphabet()
    sc = sc_alphabet()
    ngen = 11
    run_phase(run, "%s/svdw" % cfg, prod_svdw_case, svdw_alphabet(), setup=setup, light=True,
              rule="Shallue-van de Woestijne map on t in {0..16, p-16..p-1, 2^k-1,2^k,2^k+1 for k multiple of 26/32/52/64, (p+-1)/2, +-sqrt(-3), +-d, n, hashes of the seeds, fillers} against the specified map (x1,x2,x3 selection, 1/0=0, sign by oddness of t)")
    seeds = GEN_SEEDS + [b"\x00" * 31 + bytes([i]) for i in (2, 32)] + [b32(N), b32(P)] + seeded_fillers(2, b"c08s")
    if not full:
        seeds = seeds[:4]
    cases = [(s, None) for s in seeds] + [(s, b) for s in seeds for b in sc]
    run_phase(run, "%s/generate" % cfg, prod_generate_case, cases, setup=setup, light=True,
              rule="generator_generate for %d seeds and generate_blinded for seeds x SC alphabet (0,1,n-1,n,... incl. >= n): point = svdw(H('1st generation: '||seed)) + svdw(H('2nd generation: '||seed)) + blind*G, 0 iff blind >= n, deterministic, equal to ec_pubkey_tweak_add of the unblinded generator, encoding round trip" % len(seeds))
    gis = list(range(ngen)) if full else [0, 2, 6, 8]
    vals = u64 if full else u64[::2] + [2**64 - 1]
    cases = [(gi, b, vals) for gi in gis for b in sc]
    run_phase(run, "%s/commit-alphabet" % cfg, prod_commit_case, cases, setup=setup,
              rule="pedersen_commit for blind in SC (%d values incl. 0, n-1, n, n+1, 2^256-1) x value in U64 (%d values incl. 0,1,2^63,2^64-1) x generator in {h, generate(4 seeds), generate_blinded(3 blinds), parsed G, -G, 2G}[%d used]: bytes = encoding of blind*G+value*H, 0 iff blind >= n or infinity; object loads as that point; parse round trip" % (len(sc), len(vals), len(gis)))
    ks = [1, 2, N - 1, N - 2, (N + 1) // 2, LAMBDA]
    cases = [(k, v) for k in ks for v in ([1, 2, 3, 2**32, 2**63 - 1, 2**63, 2**63 + 1, 2**64 - 2, 2**64 - 1] + u64[7:40:3])]
    run_phase(run, "%s/commit-infinity" % cfg, prod_infinity_case, cases, setup=setup, light=True,
              rule="generators k*G with known k in {1,2,n-1,n-2,(n+1)/2,lambda}: blind = -v*k mod n must be refused (point at infinity), blind -v*k+-1 gives exactly +-G")
    rng = range(0, 33)
    if full:
        cases = [(a, b) for a in rng for b in rng]
    else:
        cases = [(a, b) for a in rng for b in rng if a in (0, 1, 2, 3, 31, 32) or b in (0, 1, 2, 32) or a == b]
    run_phase(run, "%s/tally-0..32" % cfg, prod_tally_case, cases, setup=setup,
              rule="verify_tally for (npos, nneg) in %s over 3 assets {h, generate(seed), generate_blinded(seed, n-1)} with per-asset balanced U64 values (totals up to 2^64-1) and SC blinds completed by the real blind_sum: balanced, sides swapped, one positive / negative value off by one unit, one commitment dropped from either side, one blind off by one, one commitment moved to another asset, same commitment added to both sides; empty lists; non-trivial = balanced verdicts" % ("[0..32]^2" if full else "a band of [0..32]^2 (edges and diagonal)"))
    wraps = [((2**63, 2**63), (0,)), ((2**64 - 1, 1), (0,)), ((2**64 - 1, 2**64 - 1, 2), (0, 0)), ((2**63,), (2**63,)), ((2**64 - 1,), (2**64 - 2, 1)),
             ((2**63, 2**63), (2**64 - 1, 1)), ((2**63 - 1, 1), (2**63,)), ((0, 0), (0,)), ((2**64 - 1, 2**64 - 1), (2**64 - 2,)), ((1,), (2**64 - 1, 2))]
    run_phase(run, "%s/tally-u64-wrap" % cfg, prod_wrap_case, wraps, setup=setup, light=True,
              rule="value sums that agree only modulo 2^64 (or 2^63) must not tally; sums that agree as integers above 2^64 must")
    s8 = [0, 1, 2, N - 2, N - 1, N, 2**256 - 1, i32(seeded_fillers(1, b"c08b")[0])]
    s12 = s8 + [N + 1, P, 2**255, (N - 1) // 2]
    cases = [((), 0)] + [((a,), np_) for a in sc for np_ in (0, 1)] + [((a, b), np_) for a in sc for b in sc for np_ in (0, 1, 2)]
    cases += [(t, np_) for t in itertools.product(s12, repeat=3) for np_ in range(4)]
    for ln in (4, 8, 32, 33, 64):
        base = [sc[(3 * i + ln) % len(sc)] % N for i in range(ln)]
        for np_ in (0, 1, ln // 2, ln - 1, ln):
            cases.append((tuple(base), np_))
        for pos in range(ln):
            for ov in (N, 2**256 - 1):
                cases.append((tuple(base[:pos] + [ov] + base[pos + 1:]), ln // 2))
    run_phase(run, "%s/blind_sum" % cfg, prod_blind_sum_case, cases, setup=setup, light=True,
              rule="blind_sum: n=0; n=1,2: SC^n x every npositive; n=3: 12 boundary scalars^3 x npositive 0..3; n in {4,8,32,33,64}: in-range lists x 5 npositive values and one overflow encoding (n, 2^256-1) at every position: 0 iff an encoding >= n else signed sum mod n")
    v4 = [0, 1, 2**63, 2**64 - 1]
    s4 = [0, 1, N - 1, N]
    cases = [("prod", (v,), 0, sc, s8) for v in (u64 if full else u64[::3])] + [("prod", (v,), 0, sc, sc) for v in v4]
    cases += [("prod", vs, ni, s8, s8) for vs in itertools.product(v4, repeat=2) for ni in (0, 1)]
    cases += [("prod", vs, ni, s4, [0, N - 1, N]) for vs in itertools.product([0, 1, 2**64 - 1], repeat=3) for ni in (0, 1, 2)]
    for ln in (4, 8, 33):
        for ni in (0, 1, ln // 2, ln - 1):
            vs = tuple(u64[(5 * i + ln) % len(u64)] for i in range(ln))
            rs = tuple(sc[(3 * i + 1) % len(sc)] % N for i in range(ln))
            fs = tuple(sc[(7 * i + 2) % len(sc)] % N for i in range(ln))
            cases.append(("one", vs, rs, fs, ni))
            for pos in (0, ln // 2, ln - 1):
                cases.append(("one", vs, rs[:pos] + (N,) + rs[pos + 1:], fs, ni))
                cases.append(("one", vs, rs, fs[:pos] + (2**256 - 1,) + fs[pos + 1:], ni))
    run_phase(run, "%s/blind_generator_blind_sum" % cfg, prod_bgbs_case, cases, setup=setup,
              rule="blind_generator_blind_sum: n_total=1: U64 x SC (r) x 8 boundary scalars (r') and {0,1,2^63,2^64-1} x SC x SC; n_total=2: {0,1,2^63,2^64-1}^2 x 8 boundary scalars^2 (r) x ^2 (r'), n_inputs 0,1; n_total=3: {0,1,2^64-1}^3 x {0,1,n-1,n}^3 (r) x {0,n-1,n}^3 (r'), n_inputs 0..2; n_total in {4,8,33} with n_inputs {0,1,half,n_total-1} and an overflow encoding at first/middle/last slot: last factor = model, others untouched, 0 iff a scalar >= n")
    cases = [(k, ni, ap, vp, rp, fp) for k in (1, 2, 3, 4) for ni in range(k) for ap in ("same", "alt") for vp in ("bal", "out+1", "in+1", "zero")
             for rp in ("zero", "edge", "mixed") for fp in ("zero", "edge", "mixed")]
    if not full:
        cases = [c for c in cases if c[4] != "zero" and c[5] != "mixed"]
    run_phase(run, "%s/blinded-assets-flow" % cfg, prod_flow_case, cases, setup=setup,
              rule="n_total in 1..4, every n_inputs, one or two alternating assets blinded by generate_blinded(seed, r), values balanced / output +1 / input +1 / all zero (incl. 2^63, totals > 2^64 split), r and r' patterns over {0,1,2,n-2,n-1,fillers}; r' completed by blind_generator_blind_sum; verify_tally(outputs, inputs) = 1 iff values balance for each asset")
    run_phase(run, "%s/parsers" % cfg, prod_parser_case, list(range(256)), setup=setup, light=True,
              rule="generator_parse and pedersen_commitment_parse on prefix byte 0..255 x x in {3 smallest on-curve, 3 smallest off-curve, each of those + p, largest on/off-curve below p, first on/off-curve >= n, G.x, 2G.x, h.x, p-1, p, p+1, 2^256-1, n, 2^255, fillers}: accepted iff prefix in {10,11} resp. {8,9}, x < p and x^3+7 square; accepted objects load as the model point and re-serialize to the input; non-trivial = accepted")
    run_phase(run, "%s/roundtrip" % cfg, prod_roundtrip_case, roundtrip_points(), setup=setup, light=True,
              rule="points {G,2G,(n-1)G,lambda*G,..., h, points with tiny x, x next to p, x >= n, svdw outputs} with both signs of y: object -> serialize = model -> parse -> same object, both codecs; commit(0,1,P)=P and commit(1,0,P)=G")
    run_phase(run, "%s/illegal-arguments" % cfg, prod_illegal_case, ILLEGAL, setup=setup, nproc=1,
              rule="NULL arguments, static context, npositive > n, n_total <= n_inputs (incl. 0/0): illegal callback fires and 0 is returned; nothing else asserted")


def main():
    a = args()
    run = Run(PID, a.tier)
    thorough = a.tier == "thorough"
    try:
        nvec = M.selftest(os.path.join(B.REPO, "src", "modules", "generator", "tests_impl.h"))
    except AssertionError as ex:
        print("MACHINERY BROKEN: reference model fails the vectors shipped in the repository: %r" % (ex,))
        sys.exit(2)
    sgs = ["sg13", "sg13-verify"] + (["sg13-san", "sg7", "sg7-verify", "sg199"] if thorough else [])
    prods = ["prod-san", "prod-verify"] + (["cfg-int64-noasm-w8-c22", "cfg-i128struct-noasm-w2-c2", "cfg-int64-san-w15",
                                            "cfg-i128-noasm-w5-c22-clang"] if thorough else [])
    if os.environ.get("C08_CFGS"):       # development aid (mutation runs): restrict the build configurations
        keep = os.environ["C08_CFGS"].split(",")
        sgs, prods = [c for c in sgs if c in keep], [c for c in prods if c in keep]
        run.cov["exhaustive"] = False
    for attempt in range(4):
        # build and load everything in the parent: forked workers inherit the mappings.  The build cache is shared
        # and pruned by concurrent runs of other checks, so a build that loses its directory is simply retried.
        try:
            B.build_many(sgs + prods)
            for b in sgs + prods:
                lib(b)
            break
        except (SystemExit, OSError):
            if attempt == 3:
                raise
    for b in sgs + prods:
        run.cov["builds"][b] = B.source_hash()[:16]
    run.cov["model_selftest_vectors"] = nvec
    for cfg in sgs:
        sg_phases(run, cfg, thorough)
        if run.out_of_time():
            run.cov["exhaustive"] = False
            break
    for i, cfg in enumerate(prods):
        if run.out_of_time():
            run.cov["exhaustive"] = False
            break
        prod_phases(run, cfg, thorough, first=(i == 0))
    run.assumptions += ["secp256k1 scalars / values / seeds outside the stated alphabets are not explored; the small groups are explored totally for the stated list lengths",
                        "in the small-group builds generators are group elements with known logarithm stored through the module's own save routine (wrapper), since the public derivation leaves the order-N subgroup",
                        "reference model mc/model/pedersen.py, self-tested against the %d fixed vectors of src/modules/generator/tests_impl.h before any verdict" % nvec,
                        "contents of output buffers after a call that returns 0 are not asserted (header is silent)",
                        "compilers: gcc 12 / clang 14 as installed"]
    sys.exit(run.finish())


if __name__ == "__main__":
    main()
