"""C04 Secret-key and public-key operations commute (key derivation algebra)."""
import sys, ctypes, itertools
from ctypes import c_int, c_long, c_size_t, c_void_p, byref
from ..core import Run, run_phase, hx, seeded_fillers, pmap, Stats
from ..util import *
from .. import build as B

PID = "C04"
_L = {}


def lib(cfg):
    if cfg not in _L:
        _L[cfg] = Lib(cfg)
    return _L[cfg]


class Env:
    def __init__(self, cfg):
        self.L = lib(cfg)
        if self.L.order:
            self.C, self.pts = small_group(self.L)
        else:
            self.C, self.pts = SECP, None


def setup(cfg):
    return lambda: Env(cfg)


def pk_of(env, d):
    """model public key of secret d"""
    if env.pts is not None:
        return env.pts[d % env.C.n]
    return SECP.mulG(d)


def pk_bytes(L, pk):
    """compressed serialisation of a pubkey object, or None if unusable (illegal callback swallowed)"""
    if is_zero(pk.raw):
        return None
    return pubkey_ser(L, pk, True)


def ser(C, pt):
    return C.ser_compressed(pt)


def tweaks_for(d, n, fill):
    t = [0, 1, 2, n - 1, n, n + 1, (n - d) % n, (n - d + 1) % n, (n - d - 1) % n, 2**256 - 1, LAMBDA % n, fill % n]
    out = []
    for x in t:
        if x not in out:
            out.append(x)
    return out


def step(env, d, st, succ, fill=12345):
    """All operations on the key state d (1 <= d < n). Appends successor states to succ."""
    L, C = env.L, env.C
    n = C.n
    Pd = pk_of(env, d)
    sk = b32(d)
    pk = buf(64)
    ret = L.ec_pubkey_create(L.ctx, pk, sk)
    st.calls += 1
    if ret != 1 or pk_bytes(L, pk) != ser(C, Pd):
        st.fail("pubkey_create(d) differs from model d*G", {"cfg": L.config, "d": hex(d)})
        return
    kp = buf(96)
    if L.keypair_create(L.ctx, kp, sk) != 1:
        st.fail("keypair_create failed on a valid key", {"cfg": L.config, "d": hex(d)})
        return
    # keypair accessors agree
    ksec = buf(32)
    kpub = buf(64)
    L.keypair_sec(L.ctx, ksec, kp)
    L.keypair_pub(L.ctx, kpub, kp)
    xo = buf(64)
    par = c_int(-1)
    L.keypair_xonly_pub(L.ctx, xo, byref(par), kp)
    xo2 = buf(64)
    par2 = c_int(-1)
    L.xonly_pubkey_from_pubkey(L.ctx, xo2, byref(par2), pk)
    x32 = buf(32)
    L.xonly_pubkey_serialize(L.ctx, x32, xo)
    st.calls += 6
    if ksec.raw != sk or kpub.raw != pk.raw or xo.raw != xo2.raw or par.value != (Pd[1] & 1) or par2.value != par.value or x32.raw != b32(Pd[0]):
        st.fail("keypair / x-only accessors disagree with the key", {"cfg": L.config, "d": hex(d)})
    # the parity output is optional ("ignored if NULL"): the x-only key must be the same without it
    xo3, xo4 = buf(64), buf(64)
    r3 = L.keypair_xonly_pub(L.ctx, xo3, None, kp)
    r4 = L.xonly_pubkey_from_pubkey(L.ctx, xo4, None, pk)
    st.calls += 2
    if r3 != 1 or r4 != 1 or xo3.raw != xo.raw or xo4.raw != xo.raw:
        st.fail("x-only conversion with pk_parity = NULL differs from the conversion with a parity output", {"cfg": L.config, "d": hex(d)})
    # ---- negate
    s2 = buf(sk)
    r1 = L.ec_seckey_negate(L.ctx, s2)
    p2 = buf(pk.raw)
    r2 = L.ec_pubkey_negate(L.ctx, p2)
    st.calls += 2
    nd = n - d
    if r1 != 1 or r2 != 1 or s2.raw != b32(nd) or pk_bytes(L, p2) != ser(C, C.neg(Pd)):
        st.fail("negate: secret/public results differ from model", {"cfg": L.config, "d": hex(d)})
    succ.append(nd)
    st.count("negate")
    for t in tweaks_for(d, n, fill):
        t32 = b32(t)
        # ---- tweak_add
        ok = t < n and (d + t) % n != 0
        s2 = buf(sk)
        r1 = L.ec_seckey_tweak_add(L.ctx, s2, t32)
        p2 = buf(pk.raw)
        r2 = L.ec_pubkey_tweak_add(L.ctx, p2, t32)
        st.calls += 2
        if ok:
            nd = (d + t) % n
            if r1 != 1 or r2 != 1 or s2.raw != b32(nd) or pk_bytes(L, p2) != ser(C, pk_of(env, nd)):
                st.fail("tweak_add: results differ from model / do not commute", {"cfg": L.config, "d": hex(d), "t": hex(t), "r1": r1, "r2": r2})
            succ.append(nd)
            st.count("add-ok")
            st.nt(("add", d, t))
        else:
            if r1 != 0 or r2 != 0 or not is_zero(s2.raw) or pk_bytes(L, p2) is not None:
                st.fail("tweak_add must fail (tweak >= n or result zero) and return no usable key",
                        {"cfg": L.config, "d": hex(d), "t": hex(t), "r1": r1, "r2": r2, "sk": hx(s2.raw), "pk_zero": is_zero(p2.raw)})
            st.count("add-fail")
        # ---- tweak_mul
        ok = 0 < t < n
        s2 = buf(sk)
        r1 = L.ec_seckey_tweak_mul(L.ctx, s2, t32)
        p2 = buf(pk.raw)
        r2 = L.ec_pubkey_tweak_mul(L.ctx, p2, t32)
        st.calls += 2
        if ok:
            nd = d * t % n
            if r1 != 1 or r2 != 1 or s2.raw != b32(nd) or pk_bytes(L, p2) != ser(C, pk_of(env, nd)):
                st.fail("tweak_mul: results differ from model / do not commute", {"cfg": L.config, "d": hex(d), "t": hex(t), "r1": r1, "r2": r2})
            succ.append(nd)
            st.count("mul-ok")
            st.nt(("mul", d, t))
        else:
            if r1 != 0 or r2 != 0 or not is_zero(s2.raw) or pk_bytes(L, p2) is not None:
                st.fail("tweak_mul must fail (tweak 0 or >= n) and return no usable key", {"cfg": L.config, "d": hex(d), "t": hex(t), "r1": r1, "r2": r2})
            st.count("mul-fail")
        # ---- x-only / keypair (taproot) tweak
        de = d if Pd[1] % 2 == 0 else n - d          # secret of the even-y key
        ok = t < n and (de + t) % n != 0
        outpk = buf(b"\x77" * 64)
        r1 = L.xonly_pubkey_tweak_add(L.ctx, outpk, xo, t32)
        kp2 = buf(kp.raw)
        r2 = L.keypair_xonly_tweak_add(L.ctx, kp2, t32)
        st.calls += 2
        if ok:
            nd = (de + t) % n
            Q = pk_of(env, nd)
            ks = buf(32)
            kq = buf(64)
            L.keypair_sec(L.ctx, ks, kp2)
            L.keypair_pub(L.ctx, kq, kp2)
            if r1 != 1 or r2 != 1 or pk_bytes(L, outpk) != ser(C, Q) or ks.raw != b32(nd) or pk_bytes(L, kq) != ser(C, Q):
                st.fail("x-only / keypair tweak_add: results differ from model / do not commute", {"cfg": L.config, "d": hex(d), "t": hex(t), "r1": r1, "r2": r2})
            # tweak_add_check accepts exactly (Q.x, parity(Q))
            for (qx, qp, expect) in ((Q[0], Q[1] & 1, 1), (Q[0], 1 - (Q[1] & 1), 0), ((Q[0] + 1) % C.p, Q[1] & 1, 0), (Pd[0], Q[1] & 1, 0)):
                got = L.xonly_pubkey_tweak_add_check(L.ctx, b32(qx), qp, xo, t32)
                st.calls += 1
                if got != expect and not (qx == Q[0] and expect == 0 and qp == (Q[1] & 1)):
                    st.fail("xonly_pubkey_tweak_add_check(%s parity %d) returned %d, expected %d" % (hex(qx), qp, got, expect), {"cfg": L.config, "d": hex(d), "t": hex(t)})
            succ.append(nd)
            st.count("xonly-ok")
            st.nt(("xo", d, t))
        else:
            if r1 != 0 or r2 != 0 or pk_bytes(L, outpk) is not None or not is_zero(kp2.raw):
                st.fail("x-only / keypair tweak_add must fail and return no usable key", {"cfg": L.config, "d": hex(d), "t": hex(t), "r1": r1, "r2": r2})
            if L.xonly_pubkey_tweak_add_check(L.ctx, b32(Pd[0]), 0, xo, t32) != 0:
                st.fail("tweak_add_check accepted an invalid tweak", {"cfg": L.config, "d": hex(d), "t": hex(t)})
            st.count("xonly-fail")
    if L.illegal or L.errors:
        st.fail("callback fired on legal input", {"cfg": L.config, "d": hex(d)})
        L.cb_reset()


def state_case(env, d, st):
    succ = []
    step(env, d, st, succ, env.fill)
    st.states.add(d)
    st.succ = getattr(st, "succ", set()) | set(succ)
    st.sample({"key": hex(d), "successors": len(set(succ))})


def noncanonical_check_case(env, st):
    """Taproot tweak check with a tweaked key whose x is tiny (x + p still fits in 32 bytes): the internal key is built as
    P = Q - t*G from a small-x curve point Q (no secret key needed for the check), t chosen so that P has even y.  The check must
    accept (Q.x, parity(Q)) and reject the re-encoding Q.x + p: it compares 32 BYTES, not field elements."""
    L, C = env.L, env.C
    if C is not SECP:
        return
    x = 1
    found = 0
    while found < 2:
        Q = C.lift_x(x)
        x += 1
        if Q is None:
            continue
        found += 1
        for Qs in (Q, C.neg(Q)):
            t = 5
            while True:
                Pt = C.add(Qs, C.neg(C.mulG(t)))
                if Pt is not None and Pt[1] % 2 == 0:
                    break
                t += 1
            xo = buf(64)
            assert L.xonly_pubkey_parse(L.ctx, xo, b32(Pt[0])) == 1
            par = Qs[1] & 1
            for (enc, want, what) in ((Qs[0], 1, "canonical x"), (Qs[0] + C.p, 0, "x + p"), (Qs[0] + 1, 0, "x + 1")):
                got = L.xonly_pubkey_tweak_add_check(L.ctx, b32(enc), par, xo, b32(t))
                st.calls += 1
                st.count("tweak-check-small-x-%s" % ("accept" if want else "reject"))
                if got != want:
                    st.fail("xonly_pubkey_tweak_add_check with the tweaked key encoded as %s (x = %d) returned %d, expected %d" % (what, Qs[0], got, want),
                            {"cfg": L.config, "internal_x": hex(Pt[0]), "tweak": t, "encoding": hex(enc), "parity": par})
            st.nt(("small-x-check", Qs))


def invalid_key_case(env, case, st):
    """operations on invalid secret keys (0, n, ...) must fail and leave nothing usable"""
    L, C = env.L, env.C
    n = C.n
    noncanonical_check_case(env, st)
    for bad in (0, n, n + 1, 2**256 - 1):
        sk = b32(bad)
        pk = buf(b"\x55" * 64)
        if L.ec_pubkey_create(L.ctx, pk, sk) != 0 or not is_zero(pk.raw):
            st.fail("pubkey_create(invalid key) must return 0 and zero the output", {"cfg": L.config, "key": hex(bad)})
        kp = buf(b"\x55" * 96)
        if L.keypair_create(L.ctx, kp, sk) != 0 or not is_zero(kp.raw):
            st.fail("keypair_create(invalid key) must return 0 and zero the output", {"cfg": L.config, "key": hex(bad)})
        if L.ec_seckey_verify(L.ctx, sk) != 0:
            st.fail("seckey_verify accepts an invalid key", {"cfg": L.config, "key": hex(bad)})
        for fn in ("ec_seckey_negate",):
            s2 = buf(sk)
            if getattr(L, fn)(L.ctx, s2) != 0 or not is_zero(s2.raw):
                st.fail("%s(invalid key) must return 0 and zero the key" % fn, {"cfg": L.config, "key": hex(bad)})
        for t in (1, 2, n - 1):
            for fn in ("ec_seckey_tweak_add", "ec_seckey_tweak_mul"):
                s2 = buf(sk)
                if getattr(L, fn)(L.ctx, s2, b32(t)) != 0 or not is_zero(s2.raw):
                    st.fail("%s(invalid key) must return 0 and zero the key" % fn, {"cfg": L.config, "key": hex(bad), "t": t})
        st.calls += 10
        st.count("invalid-key")
    for good in (1, n - 1):
        if L.ec_seckey_verify(L.ctx, b32(good)) != 1:
            st.fail("seckey_verify rejects a valid key", {"cfg": L.config, "key": hex(good)})
    if L.illegal or L.errors:
        st.fail("callback fired on legal input", {"cfg": L.config})
        L.cb_reset()


# ------------------------------------------------------------------ combine
def combine_case(env, case, st):
    L, C = env.L, env.C
    ks = case  # list of discrete logs
    n = C.n
    objs = []
    for k in ks:
        o = buf(64)
        if env.pts is not None:
            o = pubkey_from_point(L, env.pts[k % n], C)
        else:
            assert L.ec_pubkey_create(L.ctx, o, b32(k % n)) == 1
        objs.append(o)
    arr = (c_void_p * len(objs))(*[ctypes.addressof(o) for o in objs])
    out = buf(b"\x66" * 64)
    ret = L.ec_pubkey_combine(L.ctx, out, arr, len(objs))
    st.calls += 1
    tot = sum(ks) % n
    if tot == 0:
        st.count("combine-infinity")
        if ret != 0 or pk_bytes(L, out) is not None:
            st.fail("combine of keys summing to infinity must fail with no usable output", {"cfg": L.config, "logs": [hex(k) for k in ks[:8]], "n": len(ks)})
    else:
        st.count("combine-ok")
        st.nt(tuple(ks[:6]) + (len(ks),))
        if ret != 1 or pk_bytes(L, out) != ser(C, pk_of(env, tot)):
            st.fail("combine differs from model sum", {"cfg": L.config, "logs": [hex(k) for k in ks[:8]], "n": len(ks)})
    if L.illegal or L.errors:
        st.fail("callback fired on legal input", {"cfg": L.config})
        L.cb_reset()
    st.sample({"n": len(ks), "sum_is_infinity": tot == 0})


def combine_cases_prod():
    cases = []
    n = N
    for ln in list(range(1, 33)) + [63, 64, 65, 127, 128, 200]:
        base = list(range(1, ln + 1))
        cases.append(base)                                   # distinct
        cases.append([7] * ln)                               # all equal
        if ln >= 2:
            for pos in sorted(set([0, 1, ln // 2, ln - 2])):
                if pos + 1 < ln:
                    c = list(base)
                    # a cancelling pair at (pos, pos+1) and the rest cancelling overall => infinity
                    c[pos] = 5
                    c[pos + 1] = n - 5
                    cases.append(c)
                    c2 = [3, n - 3] * (ln // 2) + ([] if ln % 2 == 0 else [0])
                    if ln % 2 == 0:
                        cases.append(c2)
            # total cancels at the last position
            c = list(base[:-1])
            c.append((n - sum(c) % n) % n)
            if c[-1] != 0:
                cases.append(c)
    return cases


# ------------------------------------------------------------------ cmp / sort
def key_pool(L):
    ks = [1, 2, 3, 4, 5, 6, 7, N - 1, N - 2, N - 3, LAMBDA, N - LAMBDA, 2**128, 2**255 % N, (N - 1) // 2, (N + 1) // 2,
          10, 11, 12, 13, 14, 15, 16, 17]
    objs = []
    for k in ks:
        o = buf(64)
        assert L.ec_pubkey_create(L.ctx, o, b32(k)) == 1
        objs.append((SECP.ser_compressed(SECP.mulG(k)), o))
    return objs


def sgn(x):
    return (x > 0) - (x < 0)


def cmp_case(env, case, st):
    L = env.L
    pool = key_pool(L)
    zero = buf(64)
    for i, (ei, oi) in enumerate(pool):
        for j, (ej, oj) in enumerate(pool):
            got = L.ec_pubkey_cmp(L.ctx, oi, oj)
            exp = sgn((ei > ej) - (ei < ej))
            st.calls += 1
            if sgn(got) != exp:
                st.fail("ec_pubkey_cmp sign %d, bytewise order of compressed encodings %d" % (sgn(got), exp), {"cfg": L.config, "a": hx(ei), "b": hx(ej)})
            st.count("cmp")
            st.nt((i, j))
        # invalid (zeroed) object sorts below every valid key, with the illegal callback
        L.cb_reset()
        g1 = L.ec_pubkey_cmp(L.ctx, zero, oi)
        g2 = L.ec_pubkey_cmp(L.ctx, oi, zero)
        if not (g1 < 0 and g2 > 0 and L.illegal >= 2):
            st.fail("cmp with an invalid object: expected invalid < valid with illegal callbacks", {"cfg": L.config, "g1": g1, "g2": g2, "illegal": L.illegal})
        L.cb_reset()
    L.cb_reset()


def sort_patterns(n):
    """deterministic index patterns into a key pool of size >= n"""
    pats = {}
    idx = list(range(n))
    pats["sorted"] = idx
    pats["reversed"] = idx[::-1]
    pats["all-equal"] = [0] * n
    pats["two-valued"] = [i % 2 for i in range(n)]
    pats["organ-pipe"] = [min(i, n - 1 - i) for i in range(n)]
    pats["sawtooth"] = [i % 7 for i in range(n)]
    pats["rot1"] = idx[1:] + idx[:1]
    pats["rot-half"] = idx[n // 2:] + idx[:n // 2]
    if n >= 2:
        pats["ends-swapped"] = [idx[-1]] + idx[1:-1] + [idx[0]]
    return pats


class SortEnv(Env):
    def __init__(self, cfg):
        Env.__init__(self, cfg)
        L = self.L
        # 200 keys sorted by compressed encoding
        ks = []
        for k in range(1, 201):
            o = buf(64)
            assert L.ec_pubkey_create(L.ctx, o, b32(k)) == 1
            ks.append((SECP.ser_compressed(SECP.mulG(k)), o))
        ks.sort(key=lambda t: t[0])
        self.pool = ks


def do_sort(env, st, idxs, label):
    L = env.L
    objs = [env.pool[i][1] for i in idxs]
    addrs = [ctypes.addressof(o) for o in objs]
    arr = (c_void_p * max(len(objs), 1))(*addrs)
    ret = L.ec_pubkey_sort(L.ctx, arr, len(objs))
    st.calls += 1
    out = [arr[i] for i in range(len(objs))]
    enc = {ctypes.addressof(env.pool[i][1]): env.pool[i][0] for i in set(idxs)}
    ok = ret == 1 and sorted(out) == sorted(addrs)
    if ok:
        encs = [enc[a] for a in out]
        ok = all(encs[i] <= encs[i + 1] for i in range(len(encs) - 1))
    if not ok:
        st.fail("ec_pubkey_sort output is not a sorted permutation of its input (%s, n=%d)" % (label, len(idxs)), {"cfg": L.config, "pattern": label, "n": len(idxs), "indices": list(idxs)[:50]})
    st.count("sort-" + label.split("/")[0])


def sort_len_case(env, n, st):
    for name, idxs in sort_patterns(n).items():
        do_sort(env, st, idxs, name)
        st.nt((n, name))
    if env.L.illegal or env.L.errors:
        st.fail("callback fired on legal input", {"cfg": env.L.config, "n": n})
        env.L.cb_reset()
    st.sample({"n": n, "patterns": list(sort_patterns(n).keys())})


def sort_perm_case(env, case, st):
    n, first = case
    if n == 0:
        do_sort(env, st, [], "perm")
        return
    rest = [i for i in range(n) if i != first]
    for p in itertools.permutations(rest):
        do_sort(env, st, (first,) + p, "perm/%d" % n)
    # multisets with n <= 6: every sequence over {0,1,2} starting with `first` (if first < 3)
    if n <= 6 and first < 3:
        for p in itertools.product(range(3), repeat=n - 1):
            do_sort(env, st, (first,) + p, "multiset/%d" % n)
    if env.L.illegal or env.L.errors:
        st.fail("callback fired on legal input", {"cfg": env.L.config})
        env.L.cb_reset()
    st.nt(case)


def hsort_case(env, case, st):
    L = env.L
    n, vals, esz = case
    cnt = c_long(0)
    bad = L.verif_hsort_all(n, vals, esz, byref(cnt))
    st.calls += cnt.value
    st.count("hsort-sequences", cnt.value)
    st.nt(case)
    if bad != 0:
        st.fail("internal heap sort: %d of %d sequences over {0..%d}^%d (element size %d) not sorted correctly" % (bad, cnt.value, vals - 1, n, esz), {"cfg": L.config})
    st.sample({"n": n, "values": vals, "element_size": esz, "sequences": cnt.value})


# ------------------------------------------------------------------ BFS driver
def bfs(run, cfg, name, starts, depth, fill, rule):
    """Explicit-state BFS over key states; every state expands all operations x tweak alphabet."""
    seen = set()
    frontier = sorted(set(starts))
    tot_states = 0
    level = 0
    agg = Stats()
    import time
    t0 = time.time()
    closed = True
    while frontier and level < depth:
        seen |= set(frontier)

        def setup_f():
            e = Env(cfg)
            e.fill = fill
            return e
        st = pmap(state_case, frontier, setup=setup_f)
        agg.merge(st)
        nxt = sorted(getattr(st, "succ", set()) - seen)
        frontier = nxt
        level += 1
        if run.out_of_time():
            closed = False
            break
    d = agg.as_dict(time.time() - t0)
    d["states"] = len(seen)
    d["bounds"] = {"depth": level, "fixpoint": not frontier, "start_states": len(set(starts)), "unexpanded_frontier": len(frontier)}
    run.phase("%s/%s" % (cfg, name), d, rule=rule, exhaustive=closed)
    for what, case, raw in agg.viol:
        run.violation("[%s/%s] %s" % (cfg, name, what), case, raw, "%s/%s" % (cfg, name))
    return seen, frontier


# Stats.merge does not know about `succ`; patch it in for this module
_orig_merge = Stats.merge


def _merge(self, o):
    _orig_merge(self, o)
    self.succ = getattr(self, "succ", set()) | getattr(o, "succ", set())


Stats.merge = _merge


def main():
    a = args()
    run = Run(PID, a.tier)
    thorough = a.tier == "thorough"
    prods = ["prod-san", "prod-verify", "cfg-int64-noasm-w8-c22", "cfg-i128struct-noasm-w2-c2"] + (["cfg-int64-san-w15"] if thorough else [])
    # quick: the 32-bit-limb and the window-2 / emulated-int128 configurations run the key-algebra search only (the sort / compare
    # phases are byte-level and do not depend on the arithmetic configuration)
    algebra_only = [] if thorough else ["cfg-int64-noasm-w8-c22", "cfg-i128struct-noasm-w2-c2"]
    sgs = ["sg13", "sg13-verify"] + (["sg7", "sg199"] if thorough else [])
    B.build_many(prods + sgs)
    for b in prods + sgs:
        run.cov["builds"][b] = B.source_hash()[:16]
    fill = seeded_fillers(2, b"c04")
    f0 = i32(fill[0])
    # ---- small groups: complete reachable-state search
    for cfg in sgs:
        n = int(cfg.split("-")[0][2:])
        bfs(run, cfg, "keys-bfs-fixpoint", range(1, n), 50, f0,
            "BFS to fixpoint over ALL secret keys of the group; in every state: negate, tweak_add, tweak_mul, x-only / keypair tweak (+check) with tweaks {0,1,2,n-1,n,n+1,-d,-d+1,-d-1,2^256-1,lambda,filler}; secret and public side compared with the model and with each other; every failure case must leave no usable key")
        run_phase(run, "%s/invalid-keys" % cfg, invalid_key_case, [0], setup=setup(cfg), nproc=1)
        ms = [list(c) for k in (1, 2, 3) for c in itertools.product(range(1, n), repeat=k)] if n <= 13 else \
             [[1, n - 1], [1, 2, n - 3], [5], [100, 99], [198, 1], [1, 1, 1]]
        run_phase(run, "%s/combine-total" % cfg, combine_case, ms, setup=setup(cfg),
                  rule="ec_pubkey_combine for EVERY sequence of 1..3 group points (cancelling pairs at every position)")
    # ---- secp256k1: depth-bounded BFS
    starts = [1, 2, (N - 1) // 2, N - 2, N - 1, i32(fill[1]) % N or 3]
    depth = 4 if thorough else 3
    for cfg in prods:
        dd = depth if cfg == "prod-san" or thorough else 2
        bfs(run, cfg, "keys-bfs-depth%d" % dd, starts, dd, f0,
            "BFS depth %d from keys {1,2,(n-1)/2,n-2,n-1,filler}, states merged on the secret key; same operations and oracle as the small-group search" % dd)
        run_phase(run, "%s/invalid-keys" % cfg, invalid_key_case, [0], setup=setup(cfg), nproc=1,
                  rule="invalid secret keys {0,n,n+1,2^256-1} through create/negate/tweak: fail with zeroed outputs")
        if cfg in algebra_only:
            continue
        run_phase(run, "%s/combine" % cfg, combine_case, combine_cases_prod(), setup=setup(cfg),
                  rule="ec_pubkey_combine for lengths 1..32,63,64,65,127,128,200: distinct, all equal, cancelling pair at several positions, alternating +/- (sum infinity), last key cancelling the rest")
        run_phase(run, "%s/cmp" % cfg, cmp_case, [0], setup=setup(cfg), nproc=1,
                  rule="ec_pubkey_cmp on all ordered pairs of a 24-key pool vs bytewise order of compressed encodings; invalid object ordering")
        run_phase(run, "%s/sort-lengths" % cfg, sort_len_case, list(range(0, 201)), setup=lambda c=cfg: SortEnv(c),
                  rule="ec_pubkey_sort for EVERY length 0..200 x 9 patterns (sorted, reversed, all equal, two-valued, organ pipe, sawtooth, rotations, ends swapped); output must be a sorted permutation of the input pointers")
        pmax = 8 if thorough else 7
        run_phase(run, "%s/sort-permutations" % cfg, sort_perm_case, [(n, f) for n in range(0, pmax + 1) for f in range(max(n, 1))],
                  setup=lambda c=cfg: SortEnv(c),
                  rule="ec_pubkey_sort on ALL permutations of n <= %d distinct keys and all sequences over 3 keys for n <= 6" % pmax)
        hs = [(n, n, 4) for n in range(0, 8)] + [(n, 3, 8) for n in range(0, 11)] + [(8, 8, 4), (9, 2, 33)]
        if thorough:
            hs += [(9, 9, 4), (12, 2, 8), (13, 2, 7 * 8)]
        run_phase(run, "%s/hsort-total" % cfg, hsort_case, hs, setup=setup(cfg),
                  rule="internal heap sort on EVERY sequence in {0..v-1}^n for the listed (n,v,element size): all permutations and all multisets (C loop in the shim)")
        if run.out_of_time():
            run.cov["exhaustive"] = False
            break
    run.assumptions += ["tweaks outside the stated alphabet are not explored on secp256k1 (all tweaks are explored in the small groups)",
                        "failed calls are required to leave an all-zero/unusable object (header: 'invalid'/'zeroed')"]
    sys.exit(run.finish())


if __name__ == "__main__":
    main()
