/* C06 driver: enumerates the PUBLIC configuration space of every API the project declares constant-time and runs
 * each configuration with its secret arguments marked undefined (valgrind memcheck).  One line per configuration:
 *     CASE <entry point> <configuration> ret=<r> errors=<memcheck errors during this configuration>
 * Built by mc/checks/c06.py as:  shim.c + -DVALGRIND (so the library's own declassification points are live). */
#include <valgrind/memcheck.h>
#include "shim.c"

#define UNDEF(p, n) VALGRIND_MAKE_MEM_UNDEFINED((p), (n))
#define DEF(p, n) VALGRIND_MAKE_MEM_DEFINED((p), (n))

static int only_ep = -1, only_cfg = -1;
static unsigned long total_cases = 0, total_errors = 0, total_ok = 0;
static int cur_ep, cur_cfg;
static unsigned long err0;

static int begin_case(int ep, int cfg) {
    if (only_ep >= 0 && (ep != only_ep || (only_cfg >= 0 && cfg != only_cfg))) return 0;
    cur_ep = ep; cur_cfg = cfg;
    err0 = VALGRIND_COUNT_ERRORS;
    return 1;
}
static void end_case(const char *name, const char *desc, int ret) {
    unsigned long e = VALGRIND_COUNT_ERRORS - err0;
    DEF(&ret, sizeof(ret));
    total_cases++; total_errors += e; if (ret == 1) total_ok++;
    printf("CASE %d %d %s [%s] ret=%d errors=%lu\n", cur_ep, cur_cfg, name, desc, ret, e);
}

static void fill(unsigned char *p, size_t n, int variant, int salt) {
    size_t i;
    for (i = 0; i < n; i++) p[i] = variant == 0 ? (unsigned char)(i + 65 + salt) : (unsigned char)(0xF1 - 3 * i - salt);
    if (variant == 1) p[0] = 0x7F;   /* high-bit pattern but below the group order */
}

static secp256k1_context *make_ctx(int kind) {
    secp256k1_context *c = secp256k1_context_create(SECP256K1_CONTEXT_DECLASSIFY);
    unsigned char seed[32];
    memset(seed, 0x11, 32);
    if (kind == 1 || kind == 2) { if (!secp256k1_context_randomize(c, seed)) abort(); }
    if (kind == 2) { memset(seed, 0xE7, 32); if (!secp256k1_context_randomize(c, seed)) abort(); }
    if (kind == 3) { if (!secp256k1_context_randomize(c, seed)) abort(); if (!secp256k1_context_randomize(c, NULL)) abort(); }
    return c;
}
static const char *ctxname[4] = {"fresh", "randomized", "randomized-twice", "randomize(NULL)"};

static int hashfp_custom(unsigned char *output, const unsigned char *x32, const unsigned char *y32, void *data) {
    (void)data; memcpy(output, x32, 32); output[0] ^= y32[31]; return 1;
}
static int xdh_custom(unsigned char *output, const unsigned char *x32, const unsigned char *a64, const unsigned char *b64, void *data) {
    (void)data; memcpy(output, x32, 32); output[1] ^= a64[0] ^ b64[0]; return 1;
}

/* caller-supplied nonce functions whose FIRST candidate is unusable (zero / not below the group order), so that the signing
 * loop's retry path runs; later candidates are the library's own derivation from the (secret) key */
static int nonce_retry_zero(unsigned char *nonce32, const unsigned char *msg32, const unsigned char *key32, const unsigned char *algo16, void *data, unsigned int attempt) {
    if (attempt == 0) { memset(nonce32, 0, 32); return 1; }
    return secp256k1_nonce_function_rfc6979(nonce32, msg32, key32, algo16, data, attempt);
}
static int nonce_retry_ff(unsigned char *nonce32, const unsigned char *msg32, const unsigned char *key32, const unsigned char *algo16, void *data, unsigned int attempt) {
    if (attempt < 2) { memset(nonce32, 0xFF, 32); return 1; }
    return secp256k1_nonce_function_rfc6979(nonce32, msg32, key32, algo16, data, attempt);
}

int main(int argc, char **argv) {
    secp256k1_context *ctxs[4];
    unsigned char key[32], key2[32], msg[32], tw[32], aux[32], out64[64], out32[32];
    int ck, sv, r, i, cfg;
    char desc[256];
    if (argc > 1) only_ep = atoi(argv[1]);
    if (argc > 2) only_cfg = atoi(argv[2]);
    if (!RUNNING_ON_VALGRIND) { fprintf(stderr, "must run under valgrind\n"); return 2; }
    for (ck = 0; ck < 4; ck++) ctxs[ck] = make_ctx(ck);
    for (i = 0; i < 32; i++) msg[i] = (unsigned char)(i + 1);

    /* ---- 0: ec_pubkey_create, 1: seckey_verify, 2: seckey_negate ---- */
    cfg = 0;
    for (ck = 0; ck < 4; ck++) for (sv = 0; sv < 2; sv++, cfg++) {
        secp256k1_pubkey pk;
        snprintf(desc, sizeof(desc), "ctx=%s secret=%d", ctxname[ck], sv);
        if (begin_case(0, cfg)) { fill(key, 32, sv, 0); UNDEF(key, 32); r = secp256k1_ec_pubkey_create(ctxs[ck], &pk, key); DEF(&pk, sizeof(pk)); end_case("ec_pubkey_create", desc, r); }
        if (begin_case(1, cfg)) { fill(key, 32, sv, 0); UNDEF(key, 32); r = secp256k1_ec_seckey_verify(ctxs[ck], key); end_case("ec_seckey_verify", desc, r); }
        if (begin_case(2, cfg)) { fill(key, 32, sv, 0); UNDEF(key, 32); r = secp256k1_ec_seckey_negate(ctxs[ck], key); end_case("ec_seckey_negate", desc, r); }
    }
    /* ---- 3: seckey_tweak_add, 4: seckey_tweak_mul (tweak secret too) ---- */
    cfg = 0;
    for (sv = 0; sv < 2; sv++, cfg++) {
        snprintf(desc, sizeof(desc), "secret=%d", sv);
        if (begin_case(3, cfg)) { fill(key, 32, sv, 0); fill(tw, 32, 1 - sv, 5); UNDEF(key, 32); UNDEF(tw, 32); r = secp256k1_ec_seckey_tweak_add(ctxs[0], key, tw); end_case("ec_seckey_tweak_add", desc, r); }
        if (begin_case(4, cfg)) { fill(key, 32, sv, 0); fill(tw, 32, 1 - sv, 5); UNDEF(key, 32); UNDEF(tw, 32); r = secp256k1_ec_seckey_tweak_mul(ctxs[0], key, tw); end_case("ec_seckey_tweak_mul", desc, r); }
    }
    /* ---- 5: ecdsa_sign, 6: ecdsa_sign_recoverable : ctx x noncefp {NULL, rfc6979} x noncedata {NULL, secret} x secret ---- */
    cfg = 0;
    for (ck = 0; ck < 4; ck++) for (i = 0; i < 8; i++) for (sv = 0; sv < 2; sv++, cfg++) {
        secp256k1_ecdsa_signature sig; secp256k1_ecdsa_recoverable_signature rsig;
        secp256k1_nonce_function nf = i >= 6 ? nonce_retry_ff : i >= 4 ? nonce_retry_zero : (i & 1) ? secp256k1_nonce_function_rfc6979 : NULL;
        if (i >= 4 && ck >= 2) continue;
        snprintf(desc, sizeof(desc), "ctx=%s noncefp=%s noncedata=%s secret=%d", ctxname[ck], i >= 6 ? "custom(first two candidates >= n, then rfc6979)" : i >= 4 ? "custom(first candidate zero, then rfc6979)" : (i & 1) ? "rfc6979" : "NULL", (i & (i >= 4 ? 1 : 2)) ? "secret" : "NULL", sv);
        if (begin_case(5, cfg)) { fill(key, 32, sv, 0); fill(aux, 32, sv, 9); UNDEF(key, 32); UNDEF(aux, 32);
            r = secp256k1_ecdsa_sign(ctxs[ck], &sig, msg, key, nf, (i & (i >= 4 ? 1 : 2)) ? aux : NULL); DEF(&sig, sizeof(sig)); end_case("ecdsa_sign", desc, r); }
        if (begin_case(6, cfg)) { fill(key, 32, sv, 0); fill(aux, 32, sv, 9); UNDEF(key, 32); UNDEF(aux, 32);
            r = secp256k1_ecdsa_sign_recoverable(ctxs[ck], &rsig, msg, key, nf, (i & (i >= 4 ? 1 : 2)) ? aux : NULL); DEF(&rsig, sizeof(rsig)); end_case("ecdsa_sign_recoverable", desc, r); }
    }
    /* ---- 7: ecdh : ctx{0,1} x hashfp {NULL, sha256, custom} x secret ---- */
    cfg = 0;
    for (ck = 0; ck < 2; ck++) for (i = 0; i < 3; i++) for (sv = 0; sv < 2; sv++, cfg++) {
        secp256k1_pubkey pk; unsigned char pkkey[32];
        fill(pkkey, 32, 0, 33);
        if (!secp256k1_ec_pubkey_create(ctxs[0], &pk, pkkey)) abort();
        snprintf(desc, sizeof(desc), "ctx=%s hashfp=%s secret=%d", ctxname[ck], i == 0 ? "NULL" : i == 1 ? "sha256" : "custom", sv);
        if (begin_case(7, cfg)) { fill(key, 32, sv, 0); UNDEF(key, 32);
            r = secp256k1_ecdh(ctxs[ck], out32, &pk, key, i == 0 ? NULL : i == 1 ? secp256k1_ecdh_hash_function_sha256 : hashfp_custom, NULL); DEF(out32, 32); end_case("ecdh", desc, r); }
    }
    /* ---- 8: keypair_create, 9: keypair_xonly_tweak_add (public tweak alphabet), 10: keypair_sec, 11: keypair_pub/xonly_pub ---- */
    cfg = 0;
    for (ck = 0; ck < 2; ck++) for (sv = 0; sv < 2; sv++) for (i = 0; i < 5; i++, cfg++) {
        secp256k1_keypair kp; secp256k1_pubkey pk; secp256k1_xonly_pubkey xo; int par;
        static const unsigned char tws[5][2] = {{0, 1}, {0, 2}, {0x7F, 0xFF}, {0x55, 0x55}, {0, 0}};
        memset(tw, tws[i][1], 32); tw[0] = tws[i][0]; if (i == 4) tw[31] = 1;
        snprintf(desc, sizeof(desc), "ctx=%s secret=%d public-tweak=%d", ctxname[ck], sv, i);
        fill(key, 32, sv, 0); UNDEF(key, 32);
        if (begin_case(8, cfg)) { r = secp256k1_keypair_create(ctxs[ck], &kp, key); end_case("keypair_create", desc, r); }
        else { r = secp256k1_keypair_create(ctxs[ck], &kp, key); DEF(&r, sizeof(r)); }
        if (begin_case(9, cfg)) { secp256k1_keypair k2 = kp; r = secp256k1_keypair_xonly_tweak_add(ctxs[ck], &k2, tw); end_case("keypair_xonly_tweak_add", desc, r); }
        if (begin_case(10, cfg)) { UNDEF(&kp, 32); r = secp256k1_keypair_sec(ctxs[ck], out32, &kp); end_case("keypair_sec", desc, r); }
        if (begin_case(11, cfg)) { r = secp256k1_keypair_pub(ctxs[ck], &pk, &kp); r &= secp256k1_keypair_xonly_pub(ctxs[ck], &xo, &par, &kp); end_case("keypair_pub+xonly_pub", desc, r); }
        DEF(&kp, sizeof(kp));
    }
    /* ---- 12: schnorrsig_sign32 (aux NULL/secret), 13: schnorrsig_sign_custom (message lengths) ---- */
    cfg = 0;
    for (ck = 0; ck < 4; ck++) for (i = 0; i < 2; i++) for (sv = 0; sv < 2; sv++, cfg++) {
        secp256k1_keypair kp;
        fill(key, 32, sv, 0); UNDEF(key, 32);
        r = secp256k1_keypair_create(ctxs[ck], &kp, key); DEF(&r, sizeof(r));
        snprintf(desc, sizeof(desc), "ctx=%s aux=%s secret=%d", ctxname[ck], i ? "secret" : "NULL", sv);
        if (begin_case(12, cfg)) { fill(aux, 32, sv, 3); UNDEF(aux, 32); r = secp256k1_schnorrsig_sign32(ctxs[ck], out64, msg, &kp, i ? aux : NULL); DEF(out64, 64); end_case("schnorrsig_sign32", desc, r); }
    }
    cfg = 0;
    { static const size_t lens[6] = {0, 1, 32, 33, 100, 300}; unsigned char big[300]; secp256k1_keypair kp;
      memset(big, 0x3c, sizeof(big));
      for (i = 0; i < 6; i++) for (sv = 0; sv < 2; sv++, cfg++) {
        secp256k1_schnorrsig_extraparams ep = SECP256K1_SCHNORRSIG_EXTRAPARAMS_INIT;
        fill(key, 32, sv, 0); UNDEF(key, 32);
        r = secp256k1_keypair_create(ctxs[1], &kp, key); DEF(&r, sizeof(r));
        fill(aux, 32, sv, 3); UNDEF(aux, 32); ep.ndata = (sv ? aux : NULL);
        snprintf(desc, sizeof(desc), "msglen=%lu ndata=%s secret=%d", (unsigned long)lens[i], sv ? "secret" : "NULL", sv);
        if (begin_case(13, cfg)) { r = secp256k1_schnorrsig_sign_custom(ctxs[1], out64, big, lens[i], &kp, &ep); DEF(out64, 64); end_case("schnorrsig_sign_custom", desc, r); }
      } }
    /* ---- 14: musig_nonce_gen: 16 optional-argument combinations x secret; 15: nonce_gen_counter: 8 combinations x counters ---- */
    {
        secp256k1_keypair kp; secp256k1_pubkey pk, pk2; const secp256k1_pubkey *pks[3]; secp256k1_musig_keyagg_cache cache; secp256k1_xonly_pubkey agg;
        unsigned char k2[32], secrand[32], extra[32];
        fill(key, 32, 0, 0); fill(k2, 32, 0, 77);
        if (!secp256k1_keypair_create(ctxs[0], &kp, key) || !secp256k1_keypair_pub(ctxs[0], &pk, &kp) || !secp256k1_ec_pubkey_create(ctxs[0], &pk2, k2)) abort();
        pks[0] = &pk; pks[1] = &pk2;
        if (!secp256k1_musig_pubkey_agg(ctxs[0], &agg, &cache, pks, 2)) abort();
        cfg = 0;
        for (i = 0; i < 16; i++) for (sv = 0; sv < 2; sv++, cfg++) {
            secp256k1_musig_secnonce sn; secp256k1_musig_pubnonce pn;
            snprintf(desc, sizeof(desc), "seckey=%d msg=%d keyagg_cache=%d extra_input=%d secret=%d", i & 1, (i >> 1) & 1, (i >> 2) & 1, (i >> 3) & 1, sv);
            if (begin_case(14, cfg)) {
                fill(key, 32, 0, 0); fill(secrand, 32, sv, 21); fill(extra, 32, sv, 22);
                UNDEF(key, 32); UNDEF(secrand, 32); UNDEF(extra, 32);
                r = secp256k1_musig_nonce_gen(ctxs[sv], &sn, &pn, secrand, (i & 1) ? key : NULL, &pk, (i & 2) ? msg : NULL, (i & 4) ? &cache : NULL, (i & 8) ? extra : NULL);
                DEF(&pn, sizeof(pn)); end_case("musig_nonce_gen", desc, r); }
        }
        cfg = 0;
        { static const uint64_t cnts[4] = {0, 1, 0x100000000ULL, 0xFFFFFFFFFFFFFFFFULL};
          int c;
          for (c = 0; c < 4; c++) for (i = 0; i < 8; i++, cfg++) {
            secp256k1_musig_secnonce sn; secp256k1_musig_pubnonce pn; secp256k1_keypair kpu;
            snprintf(desc, sizeof(desc), "counter=%d msg=%d keyagg_cache=%d extra_input=%d", c, i & 1, (i >> 1) & 1, (i >> 2) & 1);
            if (begin_case(15, cfg)) {
                fill(key, 32, c & 1, 0);
                if (!secp256k1_keypair_create(ctxs[0], &kpu, key)) abort();
                /* the keypair stays DEFINED here, as in the maintainers' ctime_tests.c: nonce_gen_counter branches on the
                 * return value of the internal generator, which depends on the validity of the keypair's secret key -
                 * constant (1) for every keypair object that keypair_create can produce, but not declassified. */
                fill(extra, 32, 0, 22); UNDEF(extra, 32);
                r = secp256k1_musig_nonce_gen_counter(ctxs[c & 1], &sn, &pn, cnts[c], &kpu, (i & 1) ? msg : NULL, (i & 2) ? &cache : NULL, (i & 4) ? extra : NULL);
                DEF(&pn, sizeof(pn)); end_case("musig_nonce_gen_counter", desc, r); }
          } }
    }
    /* ---- 16: musig_partial_sign, 17: musig_adapt, 18: musig_extract_adaptor: signers {1,2,3} x tweaks {none, plain, xonly, plain+xonly} x adaptor {no, yes} ---- */
    cfg = 0;
    { int ns, tws, ad;
      for (ns = 1; ns <= 3; ns++) for (tws = 0; tws < 4; tws++) for (ad = 0; ad < 2; ad++, cfg++) {
        secp256k1_keypair kps[3]; secp256k1_pubkey pks_[3]; const secp256k1_pubkey *pkp[3]; secp256k1_musig_keyagg_cache cache; secp256k1_xonly_pubkey agg;
        secp256k1_musig_secnonce sn[3]; secp256k1_musig_pubnonce pn[3]; const secp256k1_musig_pubnonce *pnp[3];
        secp256k1_musig_aggnonce an; secp256k1_musig_session sess; secp256k1_musig_partial_sig ps[3]; const secp256k1_musig_partial_sig *psp[3];
        secp256k1_pubkey adaptor, tpk; unsigned char sec_adaptor[32], secrand[32], sk[3][32], pre[64], fin[64], ext[32]; int np = 0, s;
        int want = (only_ep < 0 || only_ep == 16 || only_ep == 17 || only_ep == 18) && (only_cfg < 0 || only_cfg == cfg);
        if (!want) continue;
        snprintf(desc, sizeof(desc), "signers=%d tweaks=%s adaptor=%d", ns, tws == 0 ? "none" : tws == 1 ? "plain" : tws == 2 ? "xonly" : "plain+xonly", ad);
        for (s = 0; s < ns; s++) { fill(sk[s], 32, s & 1, 40 + s); if (!secp256k1_keypair_create(ctxs[1], &kps[s], sk[s]) || !secp256k1_keypair_pub(ctxs[1], &pks_[s], &kps[s])) abort(); pkp[s] = &pks_[s]; }
        if (!secp256k1_musig_pubkey_agg(ctxs[1], &agg, &cache, pkp, ns)) abort();
        memset(tw, 0x21, 32);
        if (tws & 1) { if (!secp256k1_musig_pubkey_ec_tweak_add(ctxs[1], &tpk, &cache, tw)) abort(); }
        if (tws & 2) { tw[5] = 9; if (!secp256k1_musig_pubkey_xonly_tweak_add(ctxs[1], &tpk, &cache, tw)) abort(); }
        fill(sec_adaptor, 32, 0, 91);
        if (!secp256k1_ec_pubkey_create(ctxs[1], &adaptor, sec_adaptor)) abort();
        for (s = 0; s < ns; s++) { fill(secrand, 32, 0, 60 + s); if (!secp256k1_musig_nonce_gen(ctxs[1], &sn[s], &pn[s], secrand, sk[s], &pks_[s], msg, &cache, NULL)) abort(); pnp[s] = &pn[s]; }
        if (!secp256k1_musig_nonce_agg(ctxs[1], &an, pnp, ns)) abort();
        if (!secp256k1_musig_nonce_process(ctxs[1], &sess, &an, msg, &cache, ad ? &adaptor : NULL)) abort();
        for (s = 0; s < ns; s++) {
            /* secrets: the keypair's secret key and the secret nonce */
            UNDEF(&kps[s], 32); UNDEF(sn[s].data + 4, 64);
            if (s == 0 && begin_case(16, cfg)) { r = secp256k1_musig_partial_sign(ctxs[1], &ps[s], &sn[s], &kps[s], &cache, &sess); DEF(&ps[s], sizeof(ps[s])); end_case("musig_partial_sign", desc, r); }
            else { r = secp256k1_musig_partial_sign(ctxs[1], &ps[s], &sn[s], &kps[s], &cache, &sess); DEF(&r, sizeof(r)); DEF(&ps[s], sizeof(ps[s])); if (!r) abort(); }
            DEF(&kps[s], sizeof(kps[s]));
            psp[s] = &ps[s];
        }
        if (!secp256k1_musig_partial_sig_agg(ctxs[1], pre, &sess, psp, ns)) abort();
        if (!secp256k1_musig_nonce_parity(ctxs[1], &np, &sess)) abort();
        if (begin_case(17, cfg)) { UNDEF(sec_adaptor, 32); r = secp256k1_musig_adapt(ctxs[1], fin, pre, sec_adaptor, np); DEF(fin, 64); DEF(sec_adaptor, 32); end_case("musig_adapt", desc, r); }
        else { if (!secp256k1_musig_adapt(ctxs[1], fin, pre, sec_adaptor, np)) abort(); }
        if (begin_case(18, cfg)) { UNDEF(fin, 64); r = secp256k1_musig_extract_adaptor(ctxs[1], ext, fin, pre, np); DEF(ext, 32); DEF(fin, 64); end_case("musig_extract_adaptor", desc, r); }
      } }
    /* ---- 19: ellswift_create (auxrnd NULL / secret), 20: ellswift_xdh (party x hash) ---- */
    cfg = 0;
    for (ck = 0; ck < 2; ck++) for (i = 0; i < 2; i++) for (sv = 0; sv < 2; sv++, cfg++) {
        unsigned char ell[64];
        snprintf(desc, sizeof(desc), "ctx=%s auxrnd=%s secret=%d", ctxname[ck], i ? "present" : "NULL", sv);
        if (begin_case(19, cfg)) { fill(key, 32, sv, 0); fill(aux, 32, sv, 4); UNDEF(key, 32); /* auxrnd is public extra entropy (the encoding search is variable-time in it) */ r = secp256k1_ellswift_create(ctxs[ck], ell, key, i ? aux : NULL); DEF(ell, 64); end_case("ellswift_create", desc, r); }
    }
    cfg = 0;
    { unsigned char ella[64], ellb[64]; static const unsigned char prefix[64] = {'t', 'e', 's', 't'};
      fill(key, 32, 0, 0); fill(key2, 32, 1, 8);
      if (!secp256k1_ellswift_create(ctxs[0], ella, key, NULL) || !secp256k1_ellswift_create(ctxs[0], ellb, key2, NULL)) abort();
      for (i = 0; i < 2; i++) for (ck = 0; ck < 3; ck++) for (sv = 0; sv < 2; sv++, cfg++) {
        snprintf(desc, sizeof(desc), "party=%d hash=%s secret=%d", i, ck == 0 ? "bip324" : ck == 1 ? "prefix" : "custom", sv);
        if (begin_case(20, cfg)) { fill(key, 32, sv, 0); if (sv) memcpy(key, key2, 32); UNDEF(key, 32);
            r = secp256k1_ellswift_xdh(ctxs[0], out32, ella, ellb, key, i, ck == 0 ? secp256k1_ellswift_xdh_hash_function_bip324 : ck == 1 ? secp256k1_ellswift_xdh_hash_function_prefix : xdh_custom, ck == 1 ? (void *)prefix : NULL);
            DEF(out32, 32); end_case("ellswift_xdh", desc, r); }
      } }
    /* ---- 21: s2c_sign, 22: anti_exfil_host_commit, 23: anti_exfil_signer_commit, 24: anti_exfil_sign ---- */
    cfg = 0;
    for (ck = 0; ck < 4; ck++) for (sv = 0; sv < 2; sv++, cfg++) {
        secp256k1_ecdsa_signature sig; secp256k1_ecdsa_s2c_opening op; unsigned char data[32], comm[32];
        snprintf(desc, sizeof(desc), "ctx=%s secret=%d", ctxname[ck], sv);
        if (begin_case(21, cfg)) { fill(key, 32, sv, 0); fill(data, 32, sv, 12); UNDEF(key, 32); UNDEF(data, 32); r = secp256k1_ecdsa_s2c_sign(ctxs[ck], &sig, &op, msg, key, data); DEF(&sig, sizeof(sig)); DEF(&op, sizeof(op)); end_case("ecdsa_s2c_sign", desc, r); }
        if (begin_case(22, cfg)) { fill(data, 32, sv, 12); UNDEF(data, 32); r = secp256k1_ecdsa_anti_exfil_host_commit(ctxs[ck], comm, data); DEF(comm, 32); end_case("anti_exfil_host_commit", desc, r); }
        if (begin_case(23, cfg)) { fill(key, 32, sv, 0); fill(data, 32, sv, 12); UNDEF(key, 32); UNDEF(data, 32); r = secp256k1_ecdsa_anti_exfil_signer_commit(ctxs[ck], &op, msg, key, data); DEF(&op, sizeof(op)); end_case("anti_exfil_signer_commit", desc, r); }
        if (begin_case(24, cfg)) { fill(key, 32, sv, 0); fill(data, 32, sv, 12); UNDEF(key, 32); UNDEF(data, 32); r = secp256k1_anti_exfil_sign(ctxs[ck], &sig, msg, key, data); DEF(&sig, sizeof(sig)); end_case("anti_exfil_sign", desc, r); }
    }
    /* ---- 25: adaptor_encrypt (ndata NULL/secret), 26: adaptor_decrypt, 27: adaptor_recover ---- */
    cfg = 0;
    for (ck = 0; ck < 2; ck++) for (i = 0; i < 2; i++) for (sv = 0; sv < 2; sv++, cfg++) {
        unsigned char asig[162], deckey[32], exp[32]; secp256k1_pubkey enckey; secp256k1_ecdsa_signature sig;
        fill(deckey, 32, 1 - sv, 50);
        if (!secp256k1_ec_pubkey_create(ctxs[0], &enckey, deckey)) abort();
        snprintf(desc, sizeof(desc), "ctx=%s ndata=%s secret=%d", ctxname[ck], i ? "secret" : "NULL", sv);
        fill(key, 32, sv, 0); fill(aux, 32, sv, 6); UNDEF(key, 32); UNDEF(aux, 32);
        if (begin_case(25, cfg)) { r = secp256k1_ecdsa_adaptor_encrypt(ctxs[ck], asig, key, &enckey, msg, NULL, i ? aux : NULL); DEF(asig, 162); end_case("ecdsa_adaptor_encrypt", desc, r); }
        else { r = secp256k1_ecdsa_adaptor_encrypt(ctxs[ck], asig, key, &enckey, msg, NULL, i ? aux : NULL); DEF(asig, 162); DEF(&r, sizeof(r)); }
        UNDEF(deckey, 32);
        if (begin_case(26, cfg)) { r = secp256k1_ecdsa_adaptor_decrypt(ctxs[ck], &sig, deckey, asig); end_case("ecdsa_adaptor_decrypt", desc, r); }
        else { r = secp256k1_ecdsa_adaptor_decrypt(ctxs[ck], &sig, deckey, asig); DEF(&r, sizeof(r)); }
        /* as in the maintainers' ctime_tests.c: the signature stays tainted by the secret decryption key it was
         * computed from (only the return value of decrypt is declassified), and r is marked secret explicitly */
        UNDEF(&sig, 32);
        if (begin_case(27, cfg)) { r = secp256k1_ecdsa_adaptor_recover(ctxs[ck], exp, &sig, asig, &enckey); DEF(exp, 32); end_case("ecdsa_adaptor_recover", desc, r); }
        DEF(deckey, 32); DEF(&sig, sizeof(sig));
    }
    /* ---- 28: context_randomize with a secret seed (taints the context: done last, on private contexts) ---- */
    cfg = 0;
    for (ck = 0; ck < 4; ck++) for (sv = 0; sv < 2; sv++, cfg++) {
        secp256k1_context *c = make_ctx(ck); secp256k1_pubkey pk;
        snprintf(desc, sizeof(desc), "ctx=%s secret=%d then keygen", ctxname[ck], sv);
        if (begin_case(28, cfg)) { fill(key, 32, sv, 13); UNDEF(key, 32); r = secp256k1_context_randomize(c, key); DEF(&r, sizeof(r));
            fill(key2, 32, sv, 0); UNDEF(key2, 32); r &= secp256k1_ec_pubkey_create(c, &pk, key2); DEF(&pk, sizeof(pk)); end_case("context_randomize", desc, r); }
        secp256k1_context_destroy(c);
    }
    printf("TOTAL cases=%lu ok=%lu errors=%lu illegal_callbacks=%ld error_callbacks=%ld\n", total_cases, total_ok, total_errors, verif_illegal_count, verif_error_count);
    return 0;
}
