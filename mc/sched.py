"""E4 for C20: builds and runs the schedule-exploration harness (mc/sched/*).
acc  : library TU compiled with -fsanitize=thread but linked against our own runtime (sched_rt.c): every access
       outside the stack / thread-private regions is a visible operation; programs = tuples of battery ops run
       as logical threads on ONE shared context; independence (no write/any overlap between threads) means the
       executed schedule stands for every interleaving (one Mazurkiewicz trace).
tsan : the same bodies, 16 OS threads, barrier start, under the real ThreadSanitizer (free-running pass)."""
import os, subprocess, json, time, sys
from . import build as B
from .core import VERIF

SRC = os.path.join(VERIF, "mc", "sched")


def _flags():
    return [f for f in B.COMMON if f not in ("-fPIC", "-shared")] + B._tables() + ["-DUSE_ASM_X86_64=1"]


def _inc():
    return ["-I", B.REPO, "-I", os.path.join(B.REPO, "src"), "-I", B.SHIM_DIR, "-I", os.path.join(B.REPO, "contrib"), "-I", os.path.join(B.REPO, "include")]


def build_tools():
    import hashlib
    h = hashlib.sha256((B.source_hash() + open(os.path.join(SRC, "sched_main.c")).read() + open(os.path.join(SRC, "sched_rt.c")).read()).encode()).hexdigest()[:16]
    d = os.path.join(B.BUILD, "sched-" + h)
    acc, tsan = os.path.join(d, "sched-acc"), os.path.join(d, "sched-tsan")
    os.makedirs(d, exist_ok=True)
    jobs = []
    if not os.path.exists(acc):
        tmp = acc + ".%d" % os.getpid()
        cmd = "clang -O2 -g -fsanitize=thread -c %s %s %s/sched_main.c -o %s.main.o && gcc -O2 -c %s/sched_rt.c -o %s.rt.o && clang -rdynamic %s.main.o %s.rt.o -o %s -ldl -lpthread && mv %s %s" % (
            " ".join(_flags()), " ".join(_inc()), SRC, tmp, SRC, tmp, tmp, tmp, tmp, tmp, acc)
        jobs.append(subprocess.Popen(cmd, shell=True, stdout=subprocess.DEVNULL, stderr=subprocess.PIPE, text=True))
    if not os.path.exists(tsan):
        tmp = tsan + ".%d" % os.getpid()
        cmd = "clang -O2 -g -fsanitize=thread -DREAL_TSAN=1 %s %s %s/sched_main.c -o %s -lpthread -ldl && mv %s %s" % (" ".join(_flags()), " ".join(_inc()), SRC, tmp, tmp, tsan)
        jobs.append(subprocess.Popen(cmd, shell=True, stdout=subprocess.DEVNULL, stderr=subprocess.PIPE, text=True))
    for j in jobs:
        _, err = j.communicate()
        if j.returncode != 0:
            sys.stderr.write("SCHED BUILD FAILED:\n" + (err or "")[-3000:])
            raise SystemExit(2)
    return acc, tsan


def run_sched(run, thorough):
    t0 = time.time()
    acc, tsan = build_tools()
    # ---- access-monitored programs
    res = []
    nsh = max(1, int(os.environ.get("VERIF_JOBS", "16")))
    for argv in (["2", "0"], ["3", "400" if thorough else "80"]):
        # the programs are independent of each other: shard them over processes (each prepares its own context and reference)
        procs = [subprocess.Popen([acc] + argv, stdout=subprocess.PIPE, stderr=subprocess.PIPE, text=True, env=dict(os.environ, SCHED_SHARD="%d/%d" % (k, nsh))) for k in range(nsh)]
        parts = []
        for p_ in procs:
            so, se = p_.communicate(timeout=3000)
            if p_.returncode != 0 or not so.strip():
                raise RuntimeError("sched-acc failed: rc=%d %s" % (p_.returncode, se[-500:]))
            parts.append(json.loads(so.strip().splitlines()[-1]))
        m = {"mode": "acc", "ops": parts[0]["ops"], "dependent": [d_ for x in parts for d_ in x["dependent"]]}
        for key in ("programs", "visible_operations", "dependent_programs", "wrong_outputs", "log_overflow"):
            m[key] = sum(x[key] for x in parts)
        m["max_cells"] = max(x["max_cells"] for x in parts)
        res.append(m)
    programs = sum(x["programs"] for x in res)
    visible = sum(x["visible_operations"] for x in res)
    dep = [d for x in res for d in x["dependent"]]
    ndep = sum(x["dependent_programs"] for x in res)
    wrong = sum(x["wrong_outputs"] for x in res)
    d = {"cases": programs, "calls": visible, "states": programs, "nontrivial": programs,
         "hist": {"programs-2-threads": res[0]["programs"], "programs-3-threads": res[1]["programs"], "visible_operations": visible,
                  "schedules_executed": programs, "programs_covered_for_all_interleavings_by_independence": programs - ndep,
                  "dependent_programs": ndep, "wrong_outputs": wrong, "log_overflow": sum(x["log_overflow"] for x in res)},
         "samples": [{"program": "threads run battery ops (3, 4) on one shared context", "note": "ops are indices into verif_battery_op (mc/shim/wrap_c20.h)"}],
         "wall": time.time() - t0,
         "bounds": {"threads": [2, 3], "ops": res[0]["ops"], "preemption_bound": "none needed: independent programs have a single Mazurkiewicz trace"}}
    run.phase("schedules/access-monitor", d, exhaustive=True,
              rule="ALL ordered pairs of the %d battery ops (one per API family) as 2 logical threads and %d triples as 3 threads on ONE shared context with shared read-only inputs; every instrumented access outside the stack and thread-private buffers is a visible operation; a program whose threads share no written byte is independent, so the executed schedule covers every interleaving; outputs compared with the sequential reference; because dependence is a union of pairwise conflicts between operations, pairwise independence of ALL ordered pairs implies that every program in which any number of threads (2..16 and beyond) run any sequences of these operations has a single Mazurkiewicz trace as well" % (res[0]["ops"], res[1]["programs"]))
    explored = 0
    for x in dep[:10]:
        extra = ""
        if len(x["ops"]) == 2 and explored < 3:
            # the pair is dependent: enumerate EVERY schedule with <= 2 preemptions at the dependent accesses
            explored += 1
            try:
                r2 = subprocess.run([acc, "2", "0", str(x["ops"][0]), str(x["ops"][1]), "explore"], capture_output=True, text=True, timeout=1500)
                e = json.loads(r2.stdout.strip().splitlines()[-1])
                d["hist"]["explored_schedules"] = d["hist"].get("explored_schedules", 0) + e.get("schedules", 0)
                extra = "; preemption-bounded exploration: %d schedules with <= 2 preemptions over %d scheduling points, %d give a wrong output (first: start thread %d, preempt at points %s)" % (
                    e.get("schedules", 0), e.get("scheduling_points", 0), e.get("wrong_output_schedules", 0), e.get("first_bad", {}).get("first_thread", 0), e.get("first_bad", {}).get("at"))
                x["exploration"] = e
            except Exception as ex:      # the race itself is already the violation
                extra = "; exploration failed: %s" % ex
        x["extra"] = extra
    run.cov["phases"]["schedules/access-monitor"]["outcomes"] = d["hist"]
    for x in dep[:10]:
        run.violation("[schedules/access-monitor] threads running battery ops %s on one context are DEPENDENT: %s on %s (%d cells) - a data race / hidden shared mutable state%s" % (x["ops"], x["kind"], x["first"], x["bytes_cells"], x.get("extra", "")),
                      {"ops": x["ops"], "kind": x["kind"], "address": x["first"], "exploration": x.get("exploration"), "replay": "%s 2 0 %s explore" % (acc, " ".join(map(str, x["ops"][:2])))}, None, None)
    if wrong:
        run.violation("[schedules/access-monitor] %d thread outputs differ from the sequential reference" % wrong, {"wrong_outputs": wrong}, None, None)
    if sum(x["log_overflow"] for x in res):
        run.cov["exhaustive"] = False
    # ---- free-running ThreadSanitizer pass
    t1 = time.time()
    env = dict(os.environ)
    env.pop("LD_PRELOAD", None)
    env["TSAN_OPTIONS"] = "halt_on_error=1 exitcode=66 report_signal_unsafe=0"
    cmd = [tsan, "16", "2" if thorough else "1"]
    r = subprocess.run(["setarch", "x86_64", "-R"] + cmd, capture_output=True, text=True, timeout=3000, env=env)
    ok = r.returncode == 0
    d = {"cases": 16, "calls": 16 * 40 * (2 if thorough else 1), "states": 16, "nontrivial": 16, "hist": {"tsan-exit-code": r.returncode}, "wall": time.time() - t1,
         "samples": [{"cmd": " ".join(cmd), "stdout": r.stdout.strip()[-300:]}]}
    ex = run.cov["exhaustive"]
    d["sampling_pass"] = True
    run.phase("schedules/tsan-free-running", d, exhaustive=True,
              rule="separate free-running pass (NOT a verdict on interleavings by itself): 16 OS threads x all battery ops concurrently on one shared context under the real ThreadSanitizer, halt_on_error; catches accesses our own runtime cannot see (libc routines)")
    run.cov["exhaustive"] = ex  # the free-running pass is a race-visibility aid, not part of the enumerated space
    if not ok:
        if "unexpected memory mapping" in r.stderr or "FATAL" in r.stderr and "ThreadSanitizer" in r.stderr and "data race" not in r.stderr:
            run.assumptions.append("real ThreadSanitizer could not start in this sandbox (%s); free-running pass skipped" % r.stderr.strip()[:120])
        else:
            run.violation("[schedules/tsan-free-running] ThreadSanitizer reported a data race or wrong output (exit %d): %s" % (r.returncode, r.stderr.strip()[:1500]),
                          {"cmd": " ".join(cmd), "stderr": r.stderr[-3000:]}, None, None)
