"""ctypes binding of one shim build.  Public API prototypes are parsed from
/repo/include/*.h at load time; wrapper prototypes (verif_* in wrappers.h) are
parsed from the shim source the same way."""
import ctypes, os, re, glob
from ctypes import c_void_p, c_size_t, c_int, c_uint, c_uint64, c_int64, c_char_p, c_long, c_ubyte, POINTER, byref
from . import build as B

_KIND = {}


def _argkind(a):
    a = a.strip()
    if a == "void" or a == "":
        return None
    if "*" in a or "[" in a:
        return c_void_p
    t = a.split()
    ty = " ".join(t[:-1]) if len(t) > 1 else t[0]
    ty = ty.replace("const ", "").strip()
    if ty in ("size_t",):
        return c_size_t
    if ty in ("uint64_t",):
        return c_uint64
    if ty in ("int64_t",):
        return c_int64
    if ty in ("int",):
        return c_int
    if ty in ("unsigned int", "unsigned", "uint32_t"):
        return c_uint
    if ty == "long":
        return c_long
    if ty.startswith("secp256k1_") or ty.endswith("_function") or ty.endswith("_fn"):
        return c_void_p  # function-pointer typedefs
    raise ValueError("unknown arg type %r" % a)


def _split_args(s):
    out, depth, cur = [], 0, ""
    for ch in s:
        if ch == "(":
            depth += 1
        elif ch == ")":
            depth -= 1
        if ch == "," and depth == 0:
            out.append(cur)
            cur = ""
        else:
            cur += ch
    out.append(cur)
    return out


def parse_decls(text, marker):
    text = re.sub(r"/\*.*?\*/", "", text, flags=re.S)
    text = re.sub(r"^[ \t]*#.*?$", "", text, flags=re.M)
    res = {}
    for m in re.finditer(marker + r"\s+(.*?)[;{]", text, flags=re.S):
        d = " ".join(m.group(1).split())
        d = re.sub(r"SECP256K1_(WARN_UNUSED_RESULT|ARG_NONNULL\(\d+\)|DEPRECATED\(\"[^\"]*\"\))", "", d).strip()
        if "(" not in d:
            continue
        head, rest = d.split("(", 1)
        # function pointer args contain parens: find the matching close
        depth, i = 1, 0
        while depth and i < len(rest):
            if rest[i] == "(":
                depth += 1
            elif rest[i] == ")":
                depth -= 1
            i += 1
        args = rest[:i - 1]
        head = head.strip()
        name = re.split(r"[\s\*]+", head)[-1]
        rty = head[:len(head) - len(name)].strip()
        if "*" in rty:
            rt = c_void_p
        elif rty.replace("const", "").strip() == "void":
            rt = None
        elif "size_t" in rty:
            rt = c_size_t
        elif "long" in rty:
            rt = c_long
        elif "uint64_t" in rty:
            rt = c_uint64
        else:
            rt = c_int
        al = []
        for a in _split_args(args):
            if "(*" in a:
                al.append(c_void_p)
            else:
                k = _argkind(a)
                if k is not None:
                    al.append(k)
        res[name] = (rt, al)
    return res


_api_cache = None


def api_decls():
    global _api_cache
    if _api_cache is None:
        d = {}
        for f in sorted(glob.glob(os.path.join(B.REPO, "include", "*.h"))):
            d.update(parse_decls(open(f).read(), "SECP256K1_API"))
        for f in sorted(glob.glob(os.path.join(B.SHIM_DIR, "*.[ch]"))):
            d.update(parse_decls(open(f).read(), r"\bVX"))
        _api_cache = d
    return _api_cache


_SPARSE = {}


def sparse(data, total):
    """address of a private anonymous mapping of `total` bytes (never reserved: only touched pages exist) that starts with
    `data` and is zero afterwards - lets a parser be handed a declared length of 2^32 + len (a length that only differs
    above bit 31) without 4 GiB of memory.  One mapping per size is kept and reused."""
    import mmap
    m = _SPARSE.get(total)
    if m is None:
        m = mmap.mmap(-1, total, flags=mmap.MAP_PRIVATE | mmap.MAP_ANONYMOUS | getattr(mmap, "MAP_NORESERVE", 0x4000))
        _SPARSE[total] = m
    m[0:len(data)] = bytes(data)
    return ctypes.addressof(ctypes.c_char.from_buffer(m))


def buf(n_or_bytes):
    if isinstance(n_or_bytes, int):
        return ctypes.create_string_buffer(n_or_bytes)
    b = ctypes.create_string_buffer(len(n_or_bytes))
    b.raw = bytes(n_or_bytes)
    return b


_libc = ctypes.CDLL(None)
_libc.malloc.restype = c_void_p
_libc.malloc.argtypes = [c_size_t]
_libc.free.restype = None
_libc.free.argtypes = [c_void_p]


def exact(data):
    """Copy of `data` in a block obtained from libc malloc (intercepted by the preloaded ASan runtime), sized
    exactly: the red zone starts right after the last byte.  (ctypes' own buffers come from pymalloc arenas,
    which ASan does not track.)  Returns a ctypes ubyte array mapped onto the block."""
    import weakref
    data = bytes(data)
    n = len(data)
    p = _libc.malloc(max(n, 1))
    if n:
        ctypes.memmove(p, data, n)
        arr = (c_ubyte * n).from_address(p)
    else:
        arr = (c_ubyte * 0).from_address(p + 1)   # zero-length: one past the 1-byte block, any access traps
    weakref.finalize(arr, _libc.free, p)
    return arr


CONTEXT_NONE = 1
CONTEXT_DECLASSIFY = 1 | (1 << 10)
EC_COMPRESSED = (1 << 1) | (1 << 8)
EC_UNCOMPRESSED = (1 << 1)


class Lib:
    def __init__(self, config):
        self.config = config
        self.path = B.build(config)
        self.dll = ctypes.CDLL(self.path, mode=ctypes.RTLD_LOCAL)
        self._fn = {}
        self.decls = api_decls()
        self.order = self.f("verif_init")()
        b = buf(256)
        self.f("verif_config")(b, 256)
        self.config_str = b.value.decode()
        self.ctx = self.f("secp256k1_context_create")(CONTEXT_NONE)
        self.static_ctx = c_void_p.in_dll(self.dll, "secp256k1_context_static").value
        self._ill = c_long.in_dll(self.dll, "verif_illegal_count")
        self._err = c_long.in_dll(self.dll, "verif_error_count")
        self._ac = c_long.in_dll(self.dll, "verif_alloc_count")
        self._fc = c_long.in_dll(self.dll, "verif_free_count")

    def f(self, name):
        fn = self._fn.get(name)
        if fn is None:
            fn = getattr(self.dll, name)
            d = self.decls.get(name)
            if d is None:
                raise KeyError("no prototype known for " + name)
            fn.restype, fn.argtypes = d[0], d[1]
            self._fn[name] = fn
        return fn

    def has(self, name):
        return hasattr(self.dll, name)

    def __getattr__(self, name):
        # L.ecdsa_verify(...) -> secp256k1_ecdsa_verify ; L.verif_x(...) -> verif_x
        if name.startswith("_"):
            raise AttributeError(name)
        full = name if name.startswith(("verif_", "secp256k1_")) else "secp256k1_" + name
        fn = self.f(full)
        setattr(self, name, fn)
        return fn

    def addr(self, sym):
        return ctypes.cast(getattr(self.dll, sym), c_void_p).value

    def var_ptr(self, sym):
        """value of an exported pointer variable (e.g. secp256k1_nonce_function_rfc6979)"""
        return c_void_p.in_dll(self.dll, sym).value

    # callback counters
    @property
    def illegal(self):
        return self._ill.value

    @property
    def errors(self):
        return self._err.value

    def cb_reset(self):
        self._ill.value = 0
        self._err.value = 0

    def cb_take(self):
        v = (self._ill.value, self._err.value)
        self._ill.value = 0
        self._err.value = 0
        return v

    @property
    def live_allocs(self):
        return self._ac.value - self._fc.value
