"""Helpers shared by checks: alphabets, object construction through the real API."""
import ctypes, sys, argparse
from ctypes import c_void_p, c_int, c_uint, c_size_t, CFUNCTYPE, byref
from .lib import Lib, buf, exact, EC_COMPRESSED, EC_UNCOMPRESSED
from .model.curve import P, N, LAMBDA, BETA, b32, i32, SECP, small_curve, Curve
from .core import seeded_fillers


def args(default_tier=None):
    ap = argparse.ArgumentParser()
    ap.add_argument("--tier", default=None)
    ap.add_argument("--replay", default=None)
    a = ap.parse_args()
    import os
    if a.replay and not os.environ.get("VERIF_REPLAY"):
        os.environ["VERIF_REPLAY"] = a.replay
        os.execv(sys.executable, [sys.executable, "-m", sys.modules["__main__"].__spec__.name] + sys.argv[1:])
    if a.tier is None:
        a.tier = os.environ.get("VERIF_TIER") or "quick"
    if a.tier not in ("quick", "thorough"):
        a.tier = "quick"
    return a


# ---------------------------------------------------------------- alphabets
def sc_alphabet(n=N, extra_fill=2):
    """SC: boundary scalars as 256-bit integers (values >= n included on purpose)"""
    vals = [0, 1, 2, 3, 2**64 - 1, 2**64, 2**127, 2**128 - 1, 2**128, 2**255,
            (n - 1) // 2 - 1, (n - 1) // 2, (n + 1) // 2, (n + 1) // 2 + 1,
            n - 3, n - 2, n - 1, n, n + 1, n + 2, n + 3, P - n - 1, P - n, P - n + 1,
            P - 1, P, P + 1, 2**256 - 1, LAMBDA, LAMBDA * LAMBDA % N, N - LAMBDA,
            int("55" * 32, 16), int("AA" * 32, 16)]
    # single all-ones limbs (64- and 32-bit)
    for k in range(4):
        vals.append((2**64 - 1) << (64 * k))
    for k in (1, 3, 5, 7):
        vals.append((2**32 - 1) << (32 * k))
    # scalars adjacent to rounding flips of the lambda split: k with (k*g1 >> 384) rounding boundary
    vals += [2**128 + 2**64, N - 2**128, N - 2**127 - 1]
    for f in seeded_fillers(extra_fill, b"sc"):
        vals.append(i32(f))
    seen, out = set(), []
    for v in vals:
        v %= 2**256
        if v not in seen:
            seen.add(v)
            out.append(v)
    return out


def limb_boundaries(consts=None):
    """values that agree with a comparison constant in all higher limbs and differ at limb i by -1 (lower limbs all
    ones) or +1 (lower limbs zero), for 32-bit limbs (which also covers the 64-bit layout's odd boundaries) and 64-bit
    limbs: the inputs on which a per-limb comparison chain (is_high, check_overflow, fe_cmp, ...) can slip."""
    if consts is None:
        consts = [N, (N - 1) // 2, P, P - N]
    out = []
    for c in consts:
        for w in (32, 64):
            for i in range(256 // w):
                lo_mask = (1 << (w * i)) - 1
                limb = (c >> (w * i)) & ((1 << w) - 1)
                hi = c >> (w * (i + 1)) << (w * (i + 1))
                if limb > 0:
                    out.append(hi | ((limb - 1) << (w * i)) | lo_mask)
                if limb < (1 << w) - 1:
                    out.append(hi | ((limb + 1) << (w * i)))
                # equal in limb i and above, lower part all ones / all zero
                out.append(hi | (limb << (w * i)) | lo_mask)
                out.append(hi | (limb << (w * i)))
    res = []
    for v in out:
        v %= 2**256
        if v not in res:
            res.append(v)
    return res


def cmp_chain(c, widths=(26, 52, 32, 64), dense=False, bits=256):
    """First-difference alphabet for a comparison against the constant c (p, n, (n-1)/2 ...): for a deciding bit position b the
    value agrees with c above b, differs at b, and has the ADVERSARIAL lower part (all ones when the value is smaller than c, all
    zeros when it is larger) - the inputs on which a comparison chain over ANY limb partition slips when one limb is left out or
    compared the wrong way.  dense: every b in 0..bits-1; otherwise the lowest, the highest and a middle bit of every limb of every
    listed limb width (26/52: field layouts, 32/64: scalar layouts).  Returns (smaller, larger_or_equal) lists of distinct ints."""
    pos = set()
    if dense:
        pos = set(range(bits))
    else:
        for w in widths:
            i = 0
            while w * i < bits:
                lo, hi = w * i, min(w * (i + 1), bits) - 1
                pos.update((lo, hi, (lo + hi) // 2, min(lo + 1, hi)))
                i += 1
    smaller, larger = [], [c]
    for b in sorted(pos):
        top = c >> (b + 1) << (b + 1)
        if (c >> b) & 1:
            v = top | ((1 << b) - 1)
            if v not in smaller:
                smaller.append(v)
        else:
            v = top | (1 << b)
            if v < (1 << bits) and v not in larger:
                larger.append(v)
    return smaller, larger


def key_alphabet(n=N):
    return [v for v in sc_alphabet(n) if 1 <= v < n]


# ---------------------------------------------------------------- object helpers
def pubkey_from_point(L, pt, C=SECP):
    """pubkey object via the real parser (production group) or the unchecked save wrapper (small group)"""
    pk = buf(64)
    if C is SECP:
        ok = L.ec_pubkey_parse(L.ctx, pk, C.ser_uncompressed(pt), 65)
        assert ok == 1, "model point rejected by parser"
    else:
        ok = L.verif_pubkey_save_xy(pk, b32(pt[0]) + b32(pt[1]))
        assert ok == 1
    return pk


def point_from_pubkey(L, pk):
    out = buf(64)
    if not L.verif_pubkey_load_xy(L.ctx, out, pk):
        return None
    return (i32(out.raw[:32]), i32(out.raw[32:]))


def pubkey_ser(L, pk, compressed=True):
    out = buf(65)
    ln = c_size_t(65)
    ok = L.ec_pubkey_serialize(L.ctx, out, byref(ln), pk, EC_COMPRESSED if compressed else EC_UNCOMPRESSED)
    return out.raw[:ln.value] if ok else None


def sig_from_rs(L, r, s):
    sig = buf(64)
    L.verif_ecdsa_sig_save(sig, b32(r), b32(s), None)
    return sig


def sig_compact(L, sig):
    out = buf(64)
    L.ecdsa_signature_serialize_compact(L.ctx, out, sig)
    return out.raw


def small_group(L):
    """(Curve model, list of points by discrete log) for a small-group build"""
    g = buf(64)
    L.verif_get_g(g)
    G = (i32(g.raw[:32]), i32(g.raw[32:]))
    C = small_curve(L.order, G)
    pts = [None]
    for i in range(1, L.order):
        pts.append(C.add(pts[-1], G))
    assert C.add(pts[-1], G) is None
    return C, pts


NONCE_FN = CFUNCTYPE(c_int, c_void_p, c_void_p, c_void_p, c_void_p, c_void_p, c_uint)


def is_zero(b):
    return not any(bytes(b))
