"""Build cache: compiles the shim (which #includes /repo/src/secp256k1.c) per
configuration into /verif/build/<config>-<hash>/libshim.so.  <hash> covers every
file under /repo/src, /repo/include, /repo/contrib, the shim sources and the
flags, so any edit of the working tree rebuilds and an unchanged tree reuses."""
import hashlib, os, subprocess, sys, shutil, time

REPO = os.environ.get("VERIF_REPO", "/repo")
VERIF = os.path.dirname(os.path.dirname(os.path.abspath(__file__)))
BUILD = os.path.join(VERIF, "build")
if os.path.realpath(REPO) != "/repo":
    # scratch copies of the repository (mutation experiments) get their own cache directory
    BUILD = os.path.join(BUILD, "alt-" + hashlib.sha256(os.path.realpath(REPO).encode()).hexdigest()[:10])
SHIM_DIR = os.path.join(VERIF, "mc", "shim")

MODULES = ["ECDH", "RECOVERY", "EXTRAKEYS", "SCHNORRSIG", "MUSIG", "ELLSWIFT", "GENERATOR",
           "RANGEPROOF", "SURJECTIONPROOF", "WHITELIST", "ECDSA_S2C", "ECDSA_ADAPTOR",
           "BPPP", "SCHNORRSIG_HALFAGG"]
MODFLAGS = ["-DENABLE_MODULE_%s=1" % m for m in MODULES]

COMMON = ["-std=gnu99", "-fPIC", "-shared", "-fvisibility=hidden", "-w",
          "-DUSE_EXTERNAL_DEFAULT_CALLBACKS=1", "-DVERIF_WITH_LAX_DER=1"] + MODFLAGS


def _tables(window=15, comb=(43, 6)):
    return ["-DECMULT_WINDOW_SIZE=%d" % window, "-DCOMB_BLOCKS=%d" % comb[0], "-DCOMB_TEETH=%d" % comb[1]]

ASAN = ["-fsanitize=address,undefined", "-fno-sanitize-recover=all", "-fno-omit-frame-pointer", "-g1"]

# name -> (compiler, flags)
CONFIGS = {
    # the pinned configuration (x86_64 asm, native int128, window 15, comb 43x6) with sanitizers
    "prod-san": ("gcc", ["-O1", "-DUSE_ASM_X86_64=1"] + _tables() + ASAN),
    # same, -O2 with VERIFY assertions (magnitude / normalisation / VERIFY_CHECK live)
    "prod-verify": ("gcc", ["-O2", "-DVERIFY=1", "-DUSE_ASM_X86_64=1"] + _tables()),
    # plain -O2 (fast path for big enumerations)
    "prod-fast": ("gcc", ["-O2", "-DUSE_ASM_X86_64=1"] + _tables()),
    # configuration matrix members
    "cfg-i128struct-noasm-w2-c2": ("gcc", ["-O2", "-DVERIFY=1", "-DUSE_FORCE_WIDEMUL_INT128_STRUCT=1"] + _tables(2, (2, 5))),
    "cfg-int64-noasm-w8-c22": ("gcc", ["-O2", "-DVERIFY=1", "-DUSE_FORCE_WIDEMUL_INT64=1"] + _tables(8, (11, 6))),
    "cfg-int64-san-w15": ("gcc", ["-O1", "-DUSE_FORCE_WIDEMUL_INT64=1"] + _tables() + ASAN),
    "cfg-i128-noasm-w8-c2": ("gcc", ["-O2", "-DVERIFY=1"] + _tables(8, (2, 5))),
    "cfg-i128struct-asm-w15": ("gcc", ["-O2", "-DUSE_FORCE_WIDEMUL_INT128_STRUCT=1", "-DUSE_ASM_X86_64=1"] + _tables()),
    "cfg-int64-noasm-w2-c86-clang": ("clang", ["-O2", "-DVERIFY=1", "-DUSE_FORCE_WIDEMUL_INT64=1"] + _tables(2, (43, 6))),
    "cfg-i128-noasm-w5-c22-clang": ("clang", ["-O2", "-DVERIFY=1"] + _tables(5, (11, 6))),
    # small groups
    "sg13": ("gcc", ["-O2", "-DEXHAUSTIVE_TEST_ORDER=13"] + _tables()),
    "sg13-san": ("gcc", ["-O1", "-DEXHAUSTIVE_TEST_ORDER=13"] + _tables() + ASAN),
    "sg13-verify": ("gcc", ["-O2", "-DVERIFY=1", "-DEXHAUSTIVE_TEST_ORDER=13"] + _tables()),
    "sg7": ("gcc", ["-O2", "-DEXHAUSTIVE_TEST_ORDER=7"] + _tables()),
    "sg7-verify": ("gcc", ["-O2", "-DVERIFY=1", "-DEXHAUSTIVE_TEST_ORDER=7"] + _tables()),
    "sg199": ("gcc", ["-O2", "-DEXHAUSTIVE_TEST_ORDER=199"] + _tables()),
    "sg199-verify": ("gcc", ["-O2", "-DVERIFY=1", "-DEXHAUSTIVE_TEST_ORDER=199"] + _tables()),
}

_src_hash_cache = None


def source_hash():
    global _src_hash_cache
    if _src_hash_cache is not None:
        return _src_hash_cache
    h = hashlib.sha256()
    roots = [os.path.join(REPO, "src"), os.path.join(REPO, "include"), os.path.join(REPO, "contrib"), SHIM_DIR]
    for root in roots:
        for dp, dn, fn in sorted(os.walk(root)):
            dn.sort()
            for f in sorted(fn):
                if not f.endswith((".c", ".h")):
                    continue
                p = os.path.join(dp, f)
                h.update(p.encode())
                with open(p, "rb") as fh:
                    h.update(hashlib.sha256(fh.read()).digest())
    _src_hash_cache = h.hexdigest()
    return _src_hash_cache


def _plan(name):
    cc, flags = CONFIGS[name]
    h = hashlib.sha256((source_hash() + cc + " ".join(flags + COMMON)).encode()).hexdigest()[:16]
    d = os.path.join(BUILD, "%s-%s" % (name, h))
    so = os.path.join(d, "libshim.so")
    # undefined symbols must be a link error (not a dlopen surprise); the sanitizer runtime is resolved at load time
    nodefs = [] if "-fsanitize=address,undefined" in flags else ["-Wl,-z,defs"]
    tmp = so + ".tmp.%d" % os.getpid()
    cmd = [cc] + COMMON + flags + nodefs + ["-I", REPO, "-I", os.path.join(REPO, "src"), "-I", SHIM_DIR, "-I", os.path.join(REPO, "contrib"),
                                           "-I", os.path.join(REPO, "include"), os.path.join(SHIM_DIR, "shim.c"), "-o", tmp]
    return d, so, tmp, cmd


def _prune(name, keep):
    """drop builds of the same configuration that have not been touched for an hour (disk hygiene; never races a live build)"""
    try:
        for e in os.listdir(BUILD):
            if e.startswith(name + "-") and e != keep and len(e) == len(name) + 17 and e[len(name) + 1:].isalnum():
                try:
                    old = time.time() - os.path.getmtime(os.path.join(BUILD, e)) > 3600
                except OSError:
                    old = False
                if old:
                    shutil.rmtree(os.path.join(BUILD, e), ignore_errors=True)
    except OSError:
        pass


def build_many(names):
    """Build several configurations concurrently as child processes (NO threads: the callers fork workers later, and a
    fork while another thread holds the sanitizer allocator lock deadlocks the child).  Returns {name: path}."""
    res, running = {}, []
    for name in dict.fromkeys(names):
        d, so, tmp, cmd = _plan(name)
        res[name] = so
        if os.path.exists(so):
            try:
                os.utime(d, None)
            except OSError:
                pass
            continue
        os.makedirs(d, exist_ok=True)
        _prune(name, os.path.basename(d))
        running.append((name, so, tmp, cmd, subprocess.Popen(cmd, stdout=subprocess.DEVNULL, stderr=subprocess.PIPE, text=True)))
    for name, so, tmp, cmd, p in running:
        _, err = p.communicate()
        if p.returncode != 0:
            if os.path.exists(so):      # somebody else finished the same build meanwhile
                continue
            sys.stderr.write("BUILD FAILED (%s):\n%s\n%s\n" % (name, " ".join(cmd), (err or "")[-4000:]))
            raise SystemExit(2)
        os.rename(tmp, so)              # atomic publish; concurrent builders of the same hash produce identical files
    return res


def build(name, extra_src=None, quiet=True):
    """Return path of libshim.so for configuration `name`, building it if needed."""
    return build_many([name])[name]


if __name__ == "__main__":
    names = sys.argv[1:] or list(CONFIGS)
    t0 = time.time()
    for n, p in build_many(names).items():
        print(n, p)
    print("%.1fs" % (time.time() - t0))
